/* C13 family 4 (task-type timeline): every task type gid a body can show has a label.
 * Real code: task_create_pcf_types (src/emu/task.c); array model of pcf_add_value / pcf_find_value.
 * The model handlers put task->type->gid on the task-type channel (obligations
 * labels_events_nosv / _nanos6); at finish model_<m>_finish calls task_create_pcf_types(type,
 * info->types) for every process.  Here: two processes (1 + 2 task types, gid and first label
 * byte symbolic), then the two finish calls.  That a task's type is an element of its process'
 * type table is task_create's contract (C07).
 */
#include "diag.h"
#include "libc_model.h"
#include "recfile.h"
#include "alloc_ok.h"
#include "emu_prv.h"

struct inputs {
	uint32_t gid[3];
	char lab[3];
};
V_INPUTS;

#include "pv/pcf.h"
/* Array model of the value table of one pcf type (the real pcf.c is the subject of obligation
 * pcf_writer): a value can be added once, lookups find what was added.  Keeps the symbolic part
 * of the run free of pointer structures (the real hash list made symex diverge). */
#define NVAL 4
static struct pcf_type g_ptype;
static struct pcf_value g_pv[NVAL];
static int g_npv;
struct pcf_value *
pcf_find_value(struct pcf_type *type, int value)
{
	V_ASSERT(type == &g_ptype, "lookups go to the task-type pcf type");
	for (int i = 0; i < g_npv; i++)
		if (g_pv[i].value == value)
			return &g_pv[i];
	return NULL;
}
struct pcf_value *
pcf_add_value(struct pcf_type *type, int value, const char *label)
{
	if (pcf_find_value(type, value) != NULL)
		return NULL;
	V_ASSERT(g_npv < NVAL, "model capacity");
	struct pcf_value *pv = &g_pv[g_npv++];
	pv->value = value;
	pv->label[0] = label[0];
	pv->label[1] = label[1];
	pv->label[2] = '\0';
	return pv;
}
#include "src/emu/task.c"

static int
same_label(const char *a, const char *b)
{
	return a[0] == b[0] && a[1] == b[1];
}

void
harness(void)
{
	V_LOAD_INPUTS();
	for (int i = 0; i < 3; i++) {
		/* range of task_get_type_gid(): [PCF_RESERVED, 2^31) */
		V_ASSUME(IN.gid[i] >= PCF_RESERVED && IN.gid[i] <= 0x7fffffffu);
		V_ASSUME(IN.lab[i] == 'a' || IN.lab[i] == 'b');
	}

	struct pcf_type *pt = &g_ptype;
	/* concrete topology: process 0 has one task type, process 1 has two (insertion-ordered list of
	 * the uthash model, iterated through hh.next as task_create_pcf_types does); static objects:
	 * building them with task_type_create (calloc + snprintf + Jenkins hash) cost 42 M variables */
	static struct task_info info[2];
	static struct task_type t0, t1, t2;
	struct task_type *ty[3] = { &t0, &t1, &t2 };
	t0.id = 1; t1.id = 1; t2.id = 2;
	info[0].types = &t0;
	info[1].types = &t1;
	t1.hh.next = &t2;
	t2.hh.prev = &t1;
	/* symbolic scalars */
	for (int i = 0; i < 3; i++) {
		ty[i]->gid = IN.gid[i];
		ty[i]->label[0] = IN.lab[i];
		ty[i]->label[1] = '\0';
	}

	/* finish: one call per process, same pcf type */
	int f0 = task_create_pcf_types(pt, info[0].types);
	V_ASSERT(f0 == 0, "first process: no collision possible");
	int f1 = task_create_pcf_types(pt, info[1].types);

	int coll = 0;
	for (int i = 0; i < 3; i++)
		for (int j = 0; j < i; j++)
			if (IN.gid[i] == IN.gid[j] && !same_label(ty[i]->label, ty[j]->label))
				coll = 1;
	V_ASSERT(f1 == 0 || f1 == -1, "returns 0 or -1");
	V_ASSERT((f1 == 0) == !coll, "C13: task type labels are emitted iff no two different labels share a gid");
	if (f1 != 0) {
		V_REACH("gid-collision-refused");
		return;
	}
	for (int i = 0; i < 3; i++) {
		struct pcf_value *pv = pcf_find_value(pt, (int) IN.gid[i]);
		V_ASSERT(pv != NULL, "C13: every task type of every process has its gid labelled in the .pcf");
		V_ASSERT(pv == NULL || same_label(pv->label, ty[i]->label), "C13: the label stored for a gid is the task type's label");
	}
	if (IN.gid[0] == IN.gid[1]) V_REACH("same-gid-same-label-shared");
	V_REACH("task-types-labelled");
}
