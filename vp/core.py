"""Driver for bounded symbolic checking of bsc-pm/ovni with CBMC.

One Obligation = one harness TU + real units + stubs + bounds = one solver
query (plus its reachability-witness twin).  Everything is rebuilt from
/repo's working tree in a scratch dir on every run.
"""
import hashlib
import json
import os
import re
import resource
import shutil
import signal
import subprocess
import sys
import time
from concurrent.futures import ThreadPoolExecutor, as_completed
from dataclasses import dataclass, field

VERIF = os.path.dirname(os.path.dirname(os.path.abspath(__file__)))
REPO = os.environ.get("OVNI_REPO", "/repo")
HOOK_GUARD = "OVNI_VERIF"

CBMC_CHECK_FLAGS = [
    "--pointer-overflow-check", "--signed-overflow-check",
    "--undefined-shift-check",
]


@dataclass
class Obligation:
    name: str
    harness: str                       # path relative to /verif/harness
    defines: list = field(default_factory=list)
    srcs: list = field(default_factory=list)        # real units (relative to /repo) linked in
    stubs: list = field(default_factory=list)       # files under /verif/stubs linked in
    incdirs: list = field(default_factory=list)     # extra include dirs (relative to /verif) searched FIRST, e.g. stubs/uthash_model
    unwind: int = 2
    unwindset: list = field(default_factory=list)
    timeout: int = 600
    mem_gb: int = 12
    solver: list = field(default_factory=list)      # e.g. ["--sat-solver","cadical"]
    extra: list = field(default_factory=list)
    slice: bool = True
    witness: bool = True
    info_only: bool = False            # informational query, never a violation
    replay_hang_ok: bool = False       # a native replay that hangs confirms the cex
    native_cflags: list = field(default_factory=list)
    native_srcs: list = field(default_factory=list)  # real units (relative to /repo) linked only into the native replay
    desc: dict = field(default_factory=dict)        # functions, symbolic inputs, bounds (evidence)
    expect_fail: bool = False          # confirmation query of a known finding


class Scratch:
    def __init__(self):
        base = os.environ.get("OVNI_VERIF_SCRATCH", "/var/tmp")
        self.dir = os.path.join(base, "ovni-verif.%d" % os.getpid())
        shutil.rmtree(self.dir, ignore_errors=True)
        os.makedirs(self.dir)
        self.gen = os.path.join(self.dir, "gen")
        os.makedirs(self.gen)
        gen_headers(self.gen)

    def sub(self, name):
        d = os.path.join(self.dir, re.sub(r"[^A-Za-z0-9_.-]", "_", name))
        os.makedirs(d, exist_ok=True)
        return d

    def cleanup(self):
        shutil.rmtree(self.dir, ignore_errors=True)


def project_version():
    txt = open(os.path.join(REPO, "CMakeLists.txt")).read()
    m = re.search(r"project\(\s*OVNI[^)]*VERSION\s+([0-9.]+)", txt)
    if not m:
        raise RuntimeError("cannot parse project version from CMakeLists.txt")
    return m.group(1)


def gen_headers(gen):
    """Same substitution cmake's configure_file performs."""
    ver = project_version()
    src = open(os.path.join(REPO, "include/ovni.h.in")).read()
    src = src.replace("@PROJECT_VERSION@", ver).replace("@OVNI_GIT_COMMIT@", "verif")
    open(os.path.join(gen, "ovni.h"), "w").write(src)
    cfg = open(os.path.join(REPO, "src/config.h.in")).read()
    cfg = cfg.replace('#cmakedefine OVNI_CONFIG_DIR "@OVNI_CONFIG_DIR@"',
                      '#define OVNI_CONFIG_DIR "/usr/local/share/ovni"')
    open(os.path.join(gen, "config.h"), "w").write(cfg)


def include_flags(gen, ob=None):
    first = ["-I" + os.path.join(VERIF, d) for d in (ob.incdirs if ob is not None else [])]
    return first + ["-I" + gen,
            "-I" + os.path.join(VERIF, "include"),
            "-I" + os.path.join(VERIF, "stubs"),
            "-I" + os.path.join(VERIF, "harness"),
            "-I" + os.path.join(REPO, "src/include"),
            "-I" + os.path.join(REPO, "src/emu"),
            "-I" + os.path.join(REPO, "src"),
            "-I" + os.path.join(REPO, "include"),
            "-I" + REPO,
            "-D_POSIX_C_SOURCE=200809L", "-D" + HOOK_GUARD,
            '-DREPO="%s"' % REPO]


def _limits(mem_gb):
    def f():
        os.setsid()
        lim = int(mem_gb * (1 << 30))
        resource.setrlimit(resource.RLIMIT_AS, (lim, lim))
    return f


def run(cmd, timeout, cwd=None, mem_gb=16, env=None, stdout_file=None):
    """Run with wall timeout and address-space cap. Returns (rc, out, err, secs, maxrss_kb)."""
    t0 = time.time()
    out_f = open(stdout_file, "wb") if stdout_file else subprocess.PIPE
    p = subprocess.Popen(cmd, cwd=cwd, stdout=out_f, stderr=subprocess.PIPE,
                         preexec_fn=_limits(mem_gb), env=env)
    try:
        out, err = p.communicate(timeout=timeout)
        rc = p.returncode
    except subprocess.TimeoutExpired:
        try:
            os.killpg(p.pid, signal.SIGKILL)
        except ProcessLookupError:
            pass
        out, err = p.communicate()
        rc = "timeout"
    if stdout_file:
        out_f.close()
        out = b""
    ru = resource.getrusage(resource.RUSAGE_CHILDREN)
    return rc, (out or b"").decode(errors="replace"), (err or b"").decode(errors="replace"), time.time() - t0, ru.ru_maxrss


def goto_compile(sc, ob, workdir, witness):
    inc = include_flags(sc.gen, ob)
    defs = ["-D" + d for d in ob.defines] + (["-DWITNESS"] if witness else [])
    objs = []
    units = [os.path.join(VERIF, "harness", ob.harness)] + \
            [os.path.join(REPO, s) for s in ob.srcs] + \
            [os.path.join(VERIF, "stubs", s) for s in ob.stubs]
    out = os.path.join(workdir, "w.gb" if witness else "m.gb")
    cmd = ["goto-cc", "-std=c11"] + inc + defs + units + ["-o", out]
    rc, o, e, secs, _ = run(cmd, 300, cwd=workdir)
    if rc != 0:
        raise RuntimeError("goto-cc failed for %s:\n%s\n%s" % (ob.name, " ".join(cmd), (o + e)[-4000:]))
    return out, units


def cbmc_cmd(ob, gb, witness, do_slice=True):
    cmd = ["cbmc", gb, "--function", "harness", "--json-ui", "--verbosity", "8", "--drop-unused-functions", "--no-malloc-may-fail",
           "--unwind", str(ob.unwind)]
    if ob.unwindset:
        cmd += ["--unwindset", ",".join(ob.unwindset)]
    if ob.slice and do_slice:
        cmd += ["--slice-formula"]
    if witness:
        cmd += ["--no-standard-checks", "--no-built-in-assertions"]
    else:
        cmd += ["--unwinding-assertions", "--trace"] + CBMC_CHECK_FLAGS
    cmd += ob.solver + ob.extra
    return cmd


def parse_cbmc(path):
    """Returns dict(results=[...], stats, errors)."""
    res = {"results": [], "vars": None, "clauses": None, "errors": [], "solver_s": None, "verdict": None}
    try:
        data = json.load(open(path))
    except Exception as ex:  # truncated output (timeout/OOM)
        res["errors"].append("unparsable cbmc output: %s" % ex)
        return res
    for e in data:
        if not isinstance(e, dict):
            continue
        if "result" in e:
            res["results"] = e["result"]
        if "cProverStatus" in e:
            res["verdict"] = e["cProverStatus"]
        mt = e.get("messageText", "")
        if e.get("messageType") == "ERROR":
            res["errors"].append(mt)
        m = re.match(r"(\d+) variables, (\d+) clauses", mt)
        if m:
            res["vars"] = max(res["vars"] or 0, int(m.group(1)))
            res["clauses"] = max(res["clauses"] or 0, int(m.group(2)))
        m = re.match(r"Runtime Solver: ([0-9.e+-]+)s", mt)
        if m:
            res["solver_s"] = (res["solver_s"] or 0) + float(m.group(1))
        m = re.match(r"Runtime Symex: ([0-9.e+-]+)s", mt)
        if m:
            res["symex_s"] = float(m.group(1))
        m = re.match(r"Runtime decision procedure: ([0-9.e+-]+)s", mt)
        if m:
            res["decision_s"] = float(m.group(1))
    return res


def extract_inputs(trace):
    """First assignment to each IN.<path> in a CBMC json trace -> {lvalue: int}."""
    vals = {}
    for st in trace:
        if st.get("stepType") != "assignment":
            continue
        lhs = st.get("lhs", "")
        if not (lhs == "IN" or lhs.startswith("IN.") or lhs.startswith("IN[")):
            continue
        _flatten(lhs, st.get("value", {}), vals)
    return vals


def _flatten(lhs, v, vals):
    lhs = re.sub(r"\[(\d+)[a-zA-Z]*\]", r"[\1]", lhs)
    name = v.get("name")
    if name == "struct":
        for m in v.get("members", []):
            _flatten(lhs + "." + m["name"], m["value"], vals)
    elif name == "array":
        for el in v.get("elements", []):
            _flatten("%s[%s]" % (lhs, el["index"]), el["value"], vals)
    elif name == "union":
        m = v.get("member")
        if m:
            _flatten(lhs + "." + m["name"], m["value"], vals)
    elif name in ("integer", "boolean"):
        if lhs in vals:
            return
        data = v.get("data", "")
        if data in ("TRUE", "true"):
            vals[lhs] = 1
        elif data in ("FALSE", "false"):
            vals[lhs] = 0
        elif "binary" in v:
            vals[lhs] = int(v["binary"], 2)
        else:
            try:
                vals[lhs] = int(re.sub(r"[a-zA-Z]+$", "", data))
            except ValueError:
                pass


def signed(v, bits):
    return v - (1 << bits) if v >= (1 << (bits - 1)) else v


def native_replay(sc, ob, vals, workdir):
    """Compile the same harness natively (-DREPLAY, ASan+UBSan) with the real units and run it.
    Returns (status, detail): status in reproduced / not-reproduced / assume-failed / build-failed."""
    inc = include_flags(sc.gen, ob)
    hpath = os.path.join(VERIF, "harness", ob.harness)
    # The replay loader is appended to the harness TU so it sees struct inputs.
    tu = os.path.join(workdir, "replay_tu.c")
    with open(tu, "w") as f:
        f.write('#include "%s"\n' % hpath)
        f.write("void replay_load(void) {\n")
        for k, v in vals.items():
            f.write("\t%s = (__typeof__(%s)) 0x%xULL;\n" % (k, k, v))
        f.write("}\n")
        f.write("int main(void) { harness(); fprintf(stderr, \"REPLAY: harness returned normally\\n\"); return 0; }\n")
    exe = os.path.join(workdir, "replay.exe")
    cmd = ["gcc", "-std=gnu11", "-g", "-O0", "-w", "-DREPLAY",
           "-fsanitize=address,undefined", "-fno-sanitize=alignment",
           "-fno-sanitize-recover=undefined", "-fno-omit-frame-pointer"] + inc + \
          ["-D" + d for d in ob.defines] + ob.native_cflags + [tu] + \
          [os.path.join(REPO, s) for s in ob.srcs + ob.native_srcs] + \
          [os.path.join(VERIF, "stubs", s) for s in ob.stubs] + ["-o", exe, "-lm"]
    rc, o, e, _, _ = run(cmd, 300, cwd=workdir, mem_gb=64)
    if rc != 0:
        return "build-failed", (o + e)[-3000:]
    env = dict(os.environ)
    env["ASAN_OPTIONS"] = "exitcode=99:detect_leaks=0:abort_on_error=0:allocator_may_return_null=1"
    env["UBSAN_OPTIONS"] = "halt_on_error=1:exitcode=98:print_stacktrace=1"
    rc, o, e, _, _ = run([exe], 20, cwd=workdir, mem_gb=1 << 20, env=env)
    tail = (o + e)[-3000:]
    if rc == "timeout":
        return ("reproduced" if ob.replay_hang_ok else "not-reproduced"), "native replay hangs (20 s timeout)\n" + tail
    if rc == 77:
        return "assume-failed", tail
    if rc == 0:
        return "not-reproduced", tail
    if rc in (126, 127):
        return "build-failed", "replay executable could not start (exit %s)\n%s" % (rc, tail)
    # a genuine reproduction is a failed harness assertion, a sanitizer report or a fatal signal
    evidence = ("REPLAY: ASSERT-FAIL" in (o + e)) or ("Sanitizer" in (o + e)) or ("runtime error:" in (o + e)) \
        or (isinstance(rc, int) and rc < 0)
    if not evidence:
        return "not-reproduced", "exit=%s without assertion/sanitizer evidence\n%s" % (rc, tail)
    return "reproduced", "exit=%s\n%s" % (rc, tail)


def classify(prop):
    """Kind of a CBMC property id/description."""
    pid = prop.get("property", "")
    d = prop.get("description", "")
    if ".no-body." in pid:
        return "nobody"
    if ".unwind." in pid or "unwinding assertion" in d or ".recursion" in pid or "recursion unwinding" in d:
        return "unwind"
    if "pointer_arithmetic" in pid or "pointer arithmetic" in d or "pointer relation" in d:
        return "ptr-overflow"
    if d.startswith("WITNESS:"):
        return "witness"
    return "assert"


class Result:
    def __init__(self, ob):
        self.ob = ob
        self.status = None      # hold / violation / known / inconclusive / vacuous / unconfirmed / info-fail
        self.detail = ""
        self.n_props = 0
        self.n_ok = 0
        self.vars = None
        self.clauses = None
        self.cbmc_s = 0.0
        self.solver_s = None
        self.rss_kb = 0
        self.witness = None
        self.cex = None
        self.replay_path = None
        self.units = []
        self.failed = []
        self.ub_notes = []
        self.cmd = ""


def run_obligation(sc, ob, prop_id):
    r = Result(ob)
    wd = sc.sub(ob.name)
    try:
        gb, units = goto_compile(sc, ob, wd, witness=False)
    except RuntimeError as ex:
        r.status, r.detail = "inconclusive", str(ex)
        return r
    r.units = [u.replace(REPO + "/", "repo:").replace(VERIF + "/", "verif:") for u in units]
    r.units += included_units(os.path.join(VERIF, "harness", ob.harness))
    base_cmd = cbmc_cmd(ob, gb, witness=False)
    r.cmd = " ".join(base_cmd).replace(wd + "/", "")
    # CBMC 6 reports UNKNOWN for properties that are only reachable after a FAILED built-in (fatal)
    # check.  When such a failure turns out to be a non-reproducible strictness artefact (UB-NOTE), the
    # UNKNOWN properties are re-checked on their own (--property) so that nothing is left undecided.
    only = []
    for rnd in range(4):
        cmd = base_cmd + [x for pid_ in only for x in ("--property", pid_)]
        outp = os.path.join(wd, "m%d.json" % rnd)
        rc, _, err, secs, rss = run(cmd, ob.timeout, cwd=wd, mem_gb=ob.mem_gb, stdout_file=outp)
        r.cbmc_s += secs
        r.rss_kb = max(r.rss_kb, rss)
        if rc == "timeout":
            r.status, r.detail = "inconclusive", "cbmc timeout after %ds" % ob.timeout
            return r
        pr = parse_cbmc(outp)
        if rnd == 0:
            r.vars, r.clauses, r.solver_s = pr["vars"], pr["clauses"], pr["solver_s"]
        if not pr["results"]:
            r.status = "inconclusive"
            r.detail = "cbmc rc=%s produced no verdict: %s %s" % (rc, "; ".join(pr["errors"])[-1500:], err[-500:])
            return r
        if rnd == 0:
            r.n_props = len(pr["results"])
        fails = [p for p in pr["results"] if p.get("status") == "FAILURE"]
        undecided = [p for p in pr["results"] if p.get("status") not in ("SUCCESS", "FAILURE")]
        r.n_ok += sum(1 for p in pr["results"] if p.get("status") == "SUCCESS")
        unwind_f = [p for p in fails if classify(p) == "unwind"]
        nobody_f = [p for p in fails if classify(p) == "nobody"]
        if nobody_f:
            r.status = "inconclusive"
            r.detail = "functions without a body reached (model missing): " + ", ".join(p.get("property", "") for p in nobody_f[:8])
            return r
        ptr_f = [p for p in fails if classify(p) == "ptr-overflow"]
        real_f = [p for p in fails if classify(p) == "assert"]
        r.failed += [(p.get("property"), p.get("description"), p.get("sourceLocation", {}).get("file", "") + ":" +
                     str(p.get("sourceLocation", {}).get("line", ""))) for p in fails]
        for p in ptr_f:
            r.ub_notes.append("%s %s" % (p.get("property"), p.get("description")))
        if unwind_f:
            r.status = "inconclusive"
            r.detail = "unwinding assertion failed (bound too small): " + ", ".join(p.get("property", "") for p in unwind_f[:5])
            return r
        if undecided and not fails:
            r.status = "inconclusive"
            r.detail = "cbmc left %d properties undecided (%s) without any failure: %s" % (len(undecided), undecided[0].get("status"), "; ".join(pr["errors"])[-800:])
            return r
        if ob.expect_fail:
            # confirmation query for a known finding: must fail and reproduce
            if not real_f:
                r.status, r.detail = "kf-gone", "known finding no longer reproduces symbolically"
                return r
        if real_f:
            # user assertions (V_ASSERT) first, then CBMC's built-in checks, one per source line
            user_f = [p for p in real_f if ".assertion." in p.get("property", "")]
            built_f = [p for p in real_f if ".assertion." not in p.get("property", "")]
            seen, cand = set(), []
            for p in user_f + built_f:
                loc = p.get("sourceLocation", {})
                key = (loc.get("file"), loc.get("line"), ".assertion." in p.get("property", ""))
                if key in seen:
                    continue
                seen.add(key)
                cand.append(p)
            tried = []
            unconfirmed_user = []
            for p in cand[:14]:
                is_user = ".assertion." in p.get("property", "")
                vals = extract_inputs(p.get("trace", []))
                st, det = native_replay(sc, ob, vals, wd)
                if st == "assume-failed" and ob.slice:
                    # the sliced trace omitted inputs constrained only by assumptions: redo unsliced for a full assignment
                    cmd2 = cbmc_cmd(ob, gb, witness=False, do_slice=False) + ["--property", p.get("property")]
                    out2 = os.path.join(wd, "m2.json")
                    run(cmd2, ob.timeout, cwd=wd, mem_gb=ob.mem_gb, stdout_file=out2)
                    pr2 = parse_cbmc(out2)
                    f2 = [q for q in pr2["results"] if q.get("status") == "FAILURE" and q.get("property") == p.get("property")]
                    if f2:
                        vals = extract_inputs(f2[0].get("trace", []))
                        st, det = native_replay(sc, ob, vals, wd)
                tried.append((p.get("property"), p.get("description"), st))
                if st == "reproduced":
                    r.cex = {"property": p.get("property"), "description": p.get("description"),
                             "location": p.get("sourceLocation", {}), "inputs": vals, "native": det[-1500:]}
                    rp_dir = os.path.join(VERIF, "replays", prop_id)
                    os.makedirs(rp_dir, exist_ok=True)
                    h = hashlib.sha1(json.dumps([ob.name, vals], sort_keys=True).encode()).hexdigest()[:10]
                    r.replay_path = os.path.join(rp_dir, "%s-%s.json" % (re.sub(r"[^A-Za-z0-9_.-]", "_", ob.name), h))
                    json.dump({"property_id": prop_id, "obligation": ob.name, "harness": ob.harness,
                               "defines": ob.defines, "srcs": ob.srcs, "stubs": ob.stubs,
                               "native_cflags": ob.native_cflags, "native_srcs": ob.native_srcs, "incdirs": ob.incdirs, "replay_hang_ok": ob.replay_hang_ok,
                               "failed_assertion": p.get("description"),
                               "cbmc_property": p.get("property"), "inputs": vals,
                               "native_output": det[-1500:]}, open(r.replay_path, "w"), indent=1)
                    r.status = "violation"
                    r.detail = "%s: %s" % (p.get("property"), p.get("description"))
                    return r
                if is_user:
                    unconfirmed_user.append((p.get("property"), p.get("description"), st, det[-300:]))
                else:
                    # standard-level strictness of CBMC (e.g. forming an lvalue for a struct that is only
                    # partly inside the object) that neither ASan nor UBSan confirms: reported separately
                    r.ub_notes.append("not reproduced natively (%s): %s %s" % (st, p.get("property"), p.get("description")))
            if unconfirmed_user:
                r.status = "unconfirmed"
                r.detail = "counterexample(s) of harness assertions did not reproduce natively: %s" % unconfirmed_user
                return r
            if ob.expect_fail:
                r.status, r.detail = "kf-gone", "known finding no longer reproduces natively"
                return r
        if not undecided:
            break
        only = [p.get("property") for p in undecided]
    else:
        r.status, r.detail = "inconclusive", "properties still undecided after 4 rounds"
        return r

    # all properties hold: now the witness twin must be reachable
    if ob.witness:
        try:
            wgb, _ = goto_compile(sc, ob, wd, witness=True)
        except RuntimeError as ex:
            r.status, r.detail = "inconclusive", "witness build: " + str(ex)
            return r
        wcmd = cbmc_cmd(ob, wgb, witness=True)
        wout = os.path.join(wd, "w.json")
        rc, _, err, secs, rss = run(wcmd, ob.timeout, cwd=wd, mem_gb=ob.mem_gb, stdout_file=wout)
        r.cbmc_s += secs
        if rc == "timeout":
            r.status, r.detail = "inconclusive", "witness cbmc timeout"
            return r
        wr = parse_cbmc(wout)
        ws = [p for p in wr["results"] if classify(p) == "witness"]
        if not ws:
            r.status, r.detail = "vacuous", "no WITNESS point in harness (%s)" % "; ".join(wr["errors"])[-500:]
            return r
        # a witness LABEL is reached when any V_REACH carrying it is reachable (the same label may
        # be planted at alternative program points)
        labels = {}
        for p in ws:
            labels[p.get("description")] = labels.get(p.get("description"), False) or (p.get("status") == "FAILURE")
        unreached = sorted(l for l, ok in labels.items() if not ok)
        r.witness = {"points": len(labels), "reached": len(labels) - len(unreached)}
        if unreached:
            r.status, r.detail = "vacuous", "unreachable witness point(s): %s" % unreached
            return r
    r.status = "hold"
    return r


def included_units(hpath):
    """Real units pulled in by `#include REPO "/x.c"` or #include "<x>.c" in a harness."""
    out = []
    try:
        txt = open(hpath).read()
    except OSError:
        return out
    for m in re.finditer(r'#\s*include\s+"(src/[^"]+\.[ch])"', txt):
        out.append("repo(included):" + m.group(1).lstrip("/"))
    return out


def load_known_findings():
    p = os.path.join(VERIF, "known_findings.json")
    if not os.path.exists(p):
        return []
    return json.load(open(p))


def check_main(prop_id, level_text, obligations_fn, argv):
    """Entry point used by every per-property check module."""
    import argparse
    ap = argparse.ArgumentParser()
    ap.add_argument("--tier", default=os.environ.get("VERIF_TIER", "quick"))
    ap.add_argument("--replay")
    ap.add_argument("--only", help="regex on obligation names")
    ap.add_argument("--jobs", type=int, default=int(os.environ.get("VERIF_JOBS", "0")) or (os.cpu_count() or 4))
    ap.add_argument("--keep", action="store_true")
    args = ap.parse_args(argv)
    tier = "thorough" if args.tier == "thorough" else "quick"
    seed = int(os.environ.get("VERIF_SEED", "0") or 0)
    t0 = time.time()
    sc = Scratch()
    try:
        if args.replay:
            # regenerate whatever the check generates into the scratch dir (headers extracted from /repo,
            # catalogues, ...) so that the replay TU compiles exactly like during the run
            try:
                obligations_fn(tier, sc)
            except Exception as exn:
                print("note: could not regenerate the check's generated inputs: %s" % exn)
            return replay_file(sc, args.replay)
        kfs = [k for k in load_known_findings() if k.get("property") == prop_id]
        open_kfs = [k for k in kfs if k.get("status") == "open"]
        try:
            obs = obligations_fn(tier, sc)
        except Exception as exn:   # a structural guard of the check failed (fails closed, never success)
            print("INCONCLUSIVE property=%s: the check could not build its obligations: %s" % (prop_id, exn))
            print("[%s] tier=%s -> exit 2" % (prop_id, tier))
            return 2
        # known open findings: exclude their signature from the main query (-D<define>) and
        # add a confirmation query restricted to it (-D<define>_ONLY) that must still fail.
        final = []
        for ob in obs:
            mine = [k for k in open_kfs if re.fullmatch(k.get("obligation", ""), ob.name)]
            if mine:
                ob.defines = ob.defines + [k["define"] for k in mine]
            final.append(ob)
            for k in mine:
                # one confirmation twin per finding: on the obligation named by "confirm_obligation"
                # (default: every matching obligation)
                if k.get("confirm_obligation") and k["confirm_obligation"] != ob.name:
                    continue
                import copy
                c = copy.deepcopy(ob)
                c.name = ob.name + "@kf:" + k["id"]
                c.defines = [d for d in ob.defines if d != k["define"]] + [k["define"] + "_ONLY"]
                c.expect_fail = True
                c.witness = False
                c.kf = k
                final.append(c)
        if args.only:
            final = [o for o in final if re.search(args.only, o.name)]
        if seed:
            import random
            random.Random(seed).shuffle(final)
        results = []
        with ThreadPoolExecutor(max_workers=max(1, args.jobs)) as ex:
            futs = {ex.submit(run_obligation, sc, ob, prop_id): ob for ob in final}
            for f in as_completed(futs):
                ob = futs[f]
                try:
                    r = f.result()
                except Exception as exn:  # machinery error
                    r = Result(ob)
                    r.status, r.detail = "inconclusive", "driver exception: %r" % exn
                results.append(r)
                print("[%s] %-44s %-12s %6.1fs vars=%s %s" % (prop_id, ob.name, r.status, r.cbmc_s, r.vars,
                                                         (r.detail or "")[:300].replace("\n", " ")), flush=True)
        results.sort(key=lambda r: r.ob.name)
        return conclude(prop_id, level_text, tier, seed, results, time.time() - t0, args)
    finally:
        if not args.keep:
            sc.cleanup()


def conclude(prop_id, level_text, tier, seed, results, wall, args):
    rc = 0
    violations = 0
    lines = []
    for r in results:
        ob = r.ob
        if ob.expect_fail:
            k = getattr(ob, "kf", {})
            if r.status == "violation":
                lines.append("KNOWN-FINDING: property=%s %s" % (prop_id, k.get("what", ob.name)))
                # not a new violation; remove the run-time replay file to avoid clutter
                r.status = "known"
            elif r.status == "kf-gone":
                lines.append("NOTE: known finding %s of %s no longer reproduces; update known_findings.json" % (k.get("id"), prop_id))
                r.status = "hold"
            else:
                rc = max(rc, 2)
            continue
        if ob.info_only:
            if r.status not in ("hold",):
                lines.append("NOTE %s %s: informational query outcome %s (%s)" % (prop_id, ob.name, r.status, r.detail[:200]))
                r.status = "info-" + r.status
            continue
        if r.status == "violation":
            violations += 1
            rc = 1 if rc != 1 else rc
            lines.append("VIOLATION property=%s replay=%s" % (prop_id, r.replay_path))
            lines.append("  obligation=%s failed=%s" % (ob.name, r.detail))
        elif r.status in ("inconclusive", "vacuous", "unconfirmed"):
            if rc == 0:
                rc = 2
            lines.append("%s property=%s obligation=%s: %s" % (r.status.upper(), prop_id, ob.name, r.detail[:2000]))
        for n in r.ub_notes:
            lines.append("UB-NOTE property=%s obligation=%s %s" % (prop_id, ob.name, n))
    if violations:
        rc = 1
    write_evidence(prop_id, level_text, tier, seed, results, wall, violations)
    for l in lines:
        print(l)
    n_hold = sum(1 for r in results if r.status in ("hold", "known"))
    print("[%s] tier=%s queries=%d hold=%d violations=%d wall=%.1fs -> exit %d" % (
        prop_id, tier, len(results), n_hold, violations, wall, rc), flush=True)
    return rc


def write_evidence(prop_id, level_text, tier, seed, results, wall, violations):
    samples = []
    obligations = discharged = 0
    nontrivial = 0
    units = set()
    assumptions = set()
    solver_total = 0.0
    for r in results:
        ob = r.ob
        obligations += r.n_props
        discharged += r.n_ok
        if r.witness and r.witness["reached"] == r.witness["points"] and (r.vars or 0) > 0:
            nontrivial += 1
        units.update(r.units)
        for a in ob.desc.get("assumptions", []):
            assumptions.add(a)
        solver_total += r.cbmc_s
        samples.append({
            "obligation": ob.name, "harness": "harness/" + ob.harness, "defines": ob.defines,
            "functions_encoded": ob.desc.get("functions", []),
            "symbolic_inputs": ob.desc.get("symbolic", ""),
            "bound": ob.desc.get("bound", ""),
            "outside_bound": ob.desc.get("out", ""),
            "oracle": ob.desc.get("oracle", ""),
            "unwind": ob.unwind, "unwindset": ob.unwindset,
            "cbmc_properties": r.n_props, "cbmc_properties_ok": r.n_ok,
            "sat_vars": r.vars, "sat_clauses": r.clauses,
            "solver": " ".join(ob.solver) or "cbmc default (minisat2)",
            "cbmc_wall_s": round(r.cbmc_s, 2), "solver_s": r.solver_s,
            "peak_rss_kb_children": r.rss_kb, "witness": r.witness,
            "verdict": r.status, "detail": r.detail[:500], "failed": r.failed[:10],
            "ub_notes": r.ub_notes[:10],
        })
    ev = {
        "property_id": prop_id, "tier": tier, "seed": seed, "level": "other",
        "coverage": {
            "explanation": "Bounded symbolic verification of the real C code with CBMC 6.11: each obligation is one "
                           "solver query over ALL values of the listed symbolic inputs inside the stated bound "
                           "(unwinding assertions on; a too-small bound is reported as inconclusive, never as success). "
                           "The goto program is rebuilt from /repo's working tree on every run. " + level_text,
            "evaluations": len(results),
            "distinct_nontrivial": nontrivial,
            "rule": "one evaluation = one solver query (obligation); it counts as non-trivial when its formula has >0 SAT "
                    "variables and every reachability-witness point of its -DWITNESS twin was shown reachable",
            "obligations": obligations, "discharged": discharged,
            "checker_cmd": "cbmc <obligation>.gb --function harness --unwinding-assertions --slice-formula "
                           "--drop-unused-functions --pointer-overflow-check --signed-overflow-check --undefined-shift-check",
            "trusted_base": ["cbmc 6.11.0 + its SAT back end", "goto-cc C front end", "gcc + ASan/UBSan (native replay of counterexamples)",
                             "environment stubs under /verif/stubs as listed per obligation"],
            "units_encoded": sorted(units),
            "solver_wall_s_total": round(solver_total, 1),
            "samples": samples,
        },
        "assumptions": sorted(assumptions),
        "wall_s": round(wall, 2),
        "violations": violations,
    }
    # evidence of runs against a mutated copy of the repository (OVNI_REPO) is not evidence about /repo
    evdir = os.path.join(VERIF, "evidence") if os.path.realpath(REPO) == "/repo" else "/var/tmp/ovni-verif-mutant-evidence"
    os.makedirs(evdir, exist_ok=True)
    tmp = os.path.join(evdir, prop_id + ".json.tmp")
    json.dump(ev, open(tmp, "w"), indent=1)
    os.replace(tmp, os.path.join(evdir, prop_id + ".json"))


def replay_file(sc, path):
    d = json.load(open(path))
    ob = Obligation(name=d["obligation"], harness=d["harness"], defines=d.get("defines", []),
                    srcs=d.get("srcs", []), stubs=d.get("stubs", []),
                    native_cflags=d.get("native_cflags", []), native_srcs=d.get("native_srcs", []), incdirs=d.get("incdirs", []), replay_hang_ok=d.get("replay_hang_ok", False))
    st, det = native_replay(sc, ob, d["inputs"], sc.sub("replay"))
    print(det)
    print("REPLAY %s: %s" % (path, st))
    if st == "reproduced":
        print("VIOLATION property=%s replay=%s" % (d["property_id"], path))
        return 1
    return 0 if st == "not-reproduced" else 2
