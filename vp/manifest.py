#!/usr/bin/env python3
"""Regenerates /verif/MANIFEST.json from the check modules under /verif/checks."""
import importlib, json, os, sys
here = os.path.dirname(os.path.dirname(os.path.abspath(__file__)))
sys.path.insert(0, here)

NA_REASONS = {}  # property id -> reason, for properties deliberately not claimed

def main():
    props = [json.loads(l)["id"] for l in open(os.path.join(here, "properties.jsonl")) if l.strip()]
    checks, na = [], []
    for pid in props:
        try:
            mod = importlib.import_module("checks." + pid)
        except ModuleNotFoundError:
            na.append({"property_id": pid, "reason": NA_REASONS.get(pid, "no solver-based check has been built for it yet in this tree (design in DESIGN.md section 3); not claimed")})
            continue
        m = getattr(mod, "MANIFEST", {})
        checks.append({
            "property_id": pid,
            "quick_cmd": "bin/check %s --tier quick" % pid,
            "thorough_cmd": "bin/check %s --tier thorough" % pid,
            "evidence_file": "evidence/%s.json" % pid,
            "replay_cmd_template": "bin/check %s --replay {path}" % pid,
            "engine": "cbmc",
            "level_claimed": {"category": "other",
                              "text": m.get("level_text", mod.LEVEL_TEXT),
                              "design_ref": m.get("design_ref", "DESIGN.md section 3, " + pid)},
            "level_note": m.get("level_note", "Trusted: cbmc 6.11 + SAT back end, goto-cc front end, the environment stubs named in the evidence file; bounds as stated per obligation."),
            "technique": m.get("technique", "bounded symbolic execution of the real C units with CBMC (SAT), unwinding assertions, native ASan replay of counterexamples"),
        })
    man = {
        "version": 1,
        "setup_cmd": "bin/setup",
        "hooks": {"guard": "OVNI_VERIF", "enable": "checks compile the units with -DOVNI_VERIF (goto-cc and gcc replay); no hook is currently needed, static symbols are reached by #include of the .c file",
                  "baseline_off_cmd": "cmake -G Ninja -S /repo -B /repo/_build >/dev/null && cmake --build /repo/_build >/dev/null && ctest --test-dir /repo/_build -j8 --timeout 900",
                  "source_commits": [], "add_only": True},
        "engines": [{"name": "cbmc", "path": "/verif/vp/core.py", "serves_properties": [c["property_id"] for c in checks],
                     "kind_free_text": "CBMC 6.11 bounded model checker driven by /verif/bin/check; harnesses under /verif/harness, stubs under /verif/stubs"}],
        "checks": checks,
        "not_applicable": na,
        "notes": "Exit codes of every check: 0 = all obligations hold within their bounds; 1 = VIOLATION (counterexample reproduced natively); 2 = inconclusive (timeout, unwinding bound too small, vacuous harness, unreproduced counterexample) - never reported as success. Fixes of genuine defects: see known_findings.json.",
    }
    json.dump(man, open(os.path.join(here, "MANIFEST.json"), "w"), indent=1)
    print("MANIFEST.json: %d checks, %d not_applicable" % (len(checks), len(na)))

if __name__ == "__main__":
    main()
