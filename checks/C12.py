"""C12 - structurally invalid or incomplete traces are rejected, never emulated as ok.

The statement is a chain: every structural defect of a trace makes ONE unit return an error, and
every error of a unit reaches ovniemu's exit status.  The obligations follow the chain:

  defect detected by the unit                                  propagation to the exit status
  -----------------------------------------------------------  ------------------------------------------
  stream_bytes        stream.obs header / truncation / clock    player_errors  (stream_step -> player)
  metadata_version    stream.json unparsable / version != 3     trace_load_errors (stream_load -> trace_load)
  stream_load         both files of one stream                  emu_stages     (trace_load / system_init /
  metadata_attrs      missing / ill-typed mandatory attribute                   player / model_probe /
  model_gate          ovni.require missing; event of a model                    model_event -> emu_init,
                      that is not required / not registered                     emu_step, emu_finish)
  payload_<model>     unknown MCV, wrong payload size, VYc/6Yc  main_status    (emu_* -> exit status and
                      without the jumbo flag, decoded by emu_ev                 the "finished ok" line)
"""
import html
import os
import re

from vp.core import Obligation, REPO

LEVEL_TEXT = ("C12: bounded symbolic proof on the real emulator code that every structural defect of the statement makes the unit that "
              "looks at it return an error (iff-oracles written from doc/user/runtime/trace_spec.md and doc/user/emulation/events.md: "
              "stream header / truncated event / clock regression on arbitrary bytes; unparsable or version != 3 metadata; every "
              "mandatory attribute absent, of any wrong JSON type or with a forbidden value; missing ovni.require, events of models that "
              "are not required or not registered; unknown MCVs, wrong payload sizes and non-jumbo task-type events of the ovni, nosv and "
              "nanos6 handlers on events decoded by the real emu_ev) and that every such error propagates through trace_load, player, "
              "emu_init / emu_step / emu_finish to exit status 1 of ovniemu's main without the 'finished ok' line.")

MANIFEST = dict(
    level_text=LEVEL_TEXT,
    level_note=("Compositional, one corruption class per obligation (all values inside the bound at once, not one mutation at a time): "
                "streams <= 48 B / 4 events (quick) or 64 B / 5 events (thorough); one stream.json as a ghost parson document whose keys are "
                "independently absent / of any of the 6 JSON types / any 32-bit number; handlers with every payload size 0, 2..16 and "
                "well-formed jumbo payloads up to 32 B after an arbitrary previous event; propagation with every callee result symbolic. "
                "Known finding D5 (emu_ev() never clears is_jumbo when a non-jumbo event with payload follows a jumbo event: a normal VYc / "
                "6Yc then passes the handlers' jumbo check; reproduced natively and with the real ovniemu, harness/C12/repro/d5_trace.py) is "
                "was fixed in /repo (commit a5041fe); the payload obligations run unguarded. Outside the claim: parson's JSON "
                "text parser (corruption of stream.json is modelled as 'unparsable / key absent / wrong type / any value'); non-integral or "
                "out-of-int-range JSON numbers (version 3.5 is truncated to 3 by the code: grey); ovni.loom_cpus and the cross-stream merge "
                "(C15); version-string syntax of ovni.require (C14); the 256x256 table-driven categories of nosv / nanos6 and the other five "
                "models (C18); malformed jumbo payloads (shorter than id + NUL-terminated label: pre_type of nosv / nanos6 reads past them, "
                "see the report); a stream whose ovni.part is not 'thread' is ignored by the emulator and its ovni.finished is never "
                "looked at (the documentation says 'mandatory in all streams': not demanded here); the real heap under the player in the "
                "quick tier (priority-queue specification; the real heap runs in the thorough tier and in C03)."),
    technique=("CBMC 6.11 bounded symbolic execution of src/emu/{stream,path,trace,player,emu,emu_ev,model,system,loom,proc,thread,cpu,ovniemu}.c, "
               "src/emu/{ovni,nosv,nanos6}/event.c, src/emu/ovni/mark.c, src/rt/ovni.c (ovni_payload_size); parson getters = ghost document "
               "stubs/vjson.h; uthash list model; libc model (snprintf, strtok_r, strtol); open/fstat/mmap/nftw/opendir/signal stubs; "
               "independent reference decoders / attribute tables written in the harnesses from the documentation (event list read from "
               "doc/user/emulation/events.md on every run); unwinding assertions, reachability witnesses, native ASan/UBSan replay of "
               "counterexamples"))

# Suspected defect D5 (emu_ev() never clears is_jumbo for a non-jumbo event with payload): while it is
# open the payload obligations exclude its signature (-DKF_D5) and two confirmation queries
# (-DKF_D5_ONLY, expect_fail) show that it still reproduces.  C12_NO_KF_D5=1 gives the unguarded verdict
# (set KF_D5 to False once /repo is fixed: the confirmation queries then report "no longer reproduces").
KF_D5 = bool(os.environ.get("C12_KF_D5"))   # D5 is FIXED in /repo (commit a5041fe): the obligations run unguarded
KF = ["KF_D5"] if KF_D5 else []

UNRES = ["-Wl,--unresolved-symbols=ignore-all", "-no-pie"]
NATIVE_GC = ["-ffunction-sections", "-fdata-sections", "-Wl,--gc-sections", "-Wl,--unresolved-symbols=ignore-all", "-no-pie"]
MODEL_CHAR = {"ovni": "O", "nosv": "V", "nanos6": "6"}

VJ_ASSUME = "parson getters replaced by the ghost document model stubs/vjson.h (differentially tested against real parson by bin/selftest)"
UT_ASSUME = "uthash replaced by the insertion-ordered list model stubs/uthash_model"
LIBC_ASSUME = "snprintf / strtok_r / strtol / memcmp are the reference models of stubs/libc_model.h (validated natively against glibc by bin/selftest)"
ENV_ASSUME = ("model environment harness/C08/model_env.h: concrete emulator topology; leaf actions (chan_push/pop/set, task_*, body_*, thread_set_*, "
              "cpu_*, loom_get_cpu, proc/loom_find_thread) are recorders that succeed, so the handler's verdict reflects only its recognition of the "
              "code, its payload-shape checks and its own context checks")
SYS_ASSUME = ("libc shadows of harness/C15/c15_units.h: numeric printf conversions print '#', malloc/calloc never fail, memset(.., 0, ..) of fresh zero "
              "memory is a no-op, chan_init of thread/CPU channels is a no-op, HASH_FIND_INT compares ints")
D5_ASSUME = ("known finding D5 excluded by signature (-DKF_D5): the previously decoded event is jumbo and the event under test is a non-jumbo event "
             "with payload; confirmed separately by emu_ev_stale_jumbo_D5_confirm / payload_nosv_D5_confirm")


def doc_events(model):
    """Blank-separated MCVs of one model from doc/user/emulation/events.md (the documented event
    list).  A partial copy of the repo (bin/mutest copies src/ and include/ only) falls back to /repo's doc."""
    path = os.path.join(REPO, "doc/user/emulation/events.md")
    if not os.path.exists(path):
        path = "/repo/doc/user/emulation/events.md"
    txt = open(path).read()
    evs = []
    for m in re.finditer(r"<pre>(.*?)</pre>", txt, flags=re.S):
        sig = html.unescape(m.group(1))
        if len(sig) >= 3 and sig[0] == MODEL_CHAR[model]:
            evs.append(sig[:3])
    if not evs:
        raise RuntimeError("C12: no documented events for model %s in %s" % (model, path))
    for e in evs:
        if not all(33 <= ord(ch) < 127 and ch not in '"\\' for ch in e):
            raise RuntimeError("C12: unexpected character in documented event %r" % e)
    return " ".join(evs)


PAYLOAD_RULES = {
    "ovni": "OHx >= 4 bytes, OAs == 4, OAr == 8, OM[ OM] OM= == 12",
    "nosv": "VTc VTC VTx VTe VTp VTr >= 8 bytes; VYc must carry the jumbo flag",
    "nanos6": "6Tc == 8 bytes, 6Tx 6Te 6Tp 6Tr >= 4; 6Yc must carry the jumbo flag",
}


def payload_ob(name, m, defs, **kw):
    evs = doc_events(m)
    return Obligation(
        name=name, harness="C12/payload.c", defines=["M_%s" % m, 'DOC_EVENTS="%s"' % evs] + defs,
        srcs=["src/rt/ovni.c", "src/parson.c"], incdirs=["stubs/uthash_model"], unwind=130, timeout=1500,
        native_cflags=NATIVE_GC, extra=["--object-bits", "12"],
        desc=dict(functions=["emu_ev (src/emu/emu_ev.c)", "ovni_payload_size (src/rt/ovni.c)", "model_%s_event and everything below it (src/emu/%s/event.c)" % (m, m)]
                  + (["mark_event (src/emu/ovni/mark.c)"] if m == "ovni" else []),
                  symbolic=("previous event decoded into the same struct emu_ev: any flags / category / value, <= 8 payload bytes; event under test: "
                            "reserved flag bits, jumbo flag, size nibble, %s, payload 0 or 2..16 bytes or a well-formed jumbo payload of 9..32 bytes (all bytes), "
                            "clock; thread state / flags (model precondition assumed), task context" % (
                                "category and value: all 65536 pairs" if m == "ovni" else "categories T and Y with every value byte")),
                  bound="two consecutive events; payloads <= 32 bytes; %d documented events of model '%s'" % (len(evs.split()), MODEL_CHAR[m]),
                  out=("jumbo payloads shorter than 4-byte id + NUL-terminated label (pre_type reads past them); " if m != "ovni" else "jumbo-flagged events with < 5 data bytes; ")
                      + ("categories other than T / Y (table driven, no payload: C18); " if m != "ovni" else "OB* / OU* value bytes (not interpreted by the emulator); burst statistics; ")
                      + "payload CONTENT checks (C04-C08)",
                  oracle="D: after emu_ev the struct describes THIS event (MCV, clocks, payload size 0 | nibble+1 | 4+jumbo size, payload pointer, is_jumbo iff the jumbo "
                         "flag is set) whatever was decoded before; U: accepted => MCV in the documented list (doc/user/emulation/events.md)%s or accepted with a warning; "
                         "S/J: accepted => %s" % (", or OB* / OU*" if m == "ovni" else "", PAYLOAD_RULES[m]),
                  assumptions=[ENV_ASSUME, UT_ASSUME] + ([D5_ASSUME] if "KF_D5" in defs else [])), **kw)


def obligations(tier, sc):
    obs = []
    thorough = tier == "thorough"

    # ---- (1) stream.obs on arbitrary bytes: the C19 harness, same query, C12's assertions are in it ----
    mx, steps = (64, 5) if thorough else (48, 4)
    obs.append(Obligation(
        name="stream_bytes", harness="C19/stream.c", defines=["MAXSZ=%d" % mx, "NSTEPS=%d" % steps],
        srcs=["src/rt/ovni.c", "src/emu/path.c", "src/parson.c"], unwind=mx + 2, timeout=900,
        desc=dict(functions=["load_obs", "load_stream_fd", "check_stream_header", "stream_step", "next_ev_size", "stream_evclock", "ovni_ev_size", "ovni_payload_size"],
                  symbolic="file size 0..%d, every byte of the file (header bytes, every truncation point, every pair of clocks), clock offset, unsorted flag" % mx,
                  bound="stream.obs of <= %d bytes, <= %d stream_step calls" % (mx, steps),
                  out="files longer than the bound; mmap/fstat failures",
                  oracle="independent tiler (trace_spec.md): loaded iff size >= 8, magic 'ovni', version 1; each step: -1 iff the next event is truncated or (sorted mode) "
                         "its clock is lower than the previous one, +1 exactly at the end, else 0 with the cursor on the reference event boundary; every access inside the exact-size object",
                  assumptions=["open/fstat/mmap/close stubs return the harness' exact-size object", "clocks and offset below 2^61 unless the offset is 0 in sorted mode"])))

    # ---- (2) stream.json: unparsable / version; the whole stream_load ---------------------------------
    mv_sym = ("json_parse_file_with_comments fails or returns the ghost document; root of any JSON type; `version` absent / of any of the 6 JSON types / "
              "any number in (-2^30, 2^30) or that + 0.5; an unrelated `ovni` member present or not")
    obs.append(Obligation(
        name="metadata_version", harness="C12/meta_version.c", defines=["PART=1"], unwind=24, timeout=600, native_cflags=UNRES,
        desc=dict(functions=["load_json", "check_version"], symbolic=mv_sym, bound="one document",
                  out="parson's JSON text parser; non-integral numbers (3.5 is truncated to 3 by the code: no demand)",
                  oracle="metadata accepted iff parsable, root is an object, `version` present, a JSON number and == 3 (trace_spec.md)",
                  assumptions=[VJ_ASSUME])))
    obs.append(Obligation(
        name="stream_load", harness="C12/meta_version.c", defines=["PART=2"], unwind=24, timeout=600, native_cflags=UNRES,
        desc=dict(functions=["stream_load", "load_json", "check_version", "load_obs", "load_stream_fd", "check_stream_header", "stream_metadata",
                             "path_append", "path_remove_trailing"],
                  symbolic=mv_sym + "; stream.obs of 0..20 bytes with symbolic header bytes; open() of stream.obs fails or not",
                  bound="one stream directory t/s",
                  out="as metadata_version; fstat/mmap/close failures",
                  oracle="stream_load == 0 iff the metadata is accepted (as above) and stream.obs can be opened, has >= 8 bytes, magic 'ovni' and version 1; "
                         "stream.obs is not opened when the metadata is refused; on success cursor after the header and the stream carries the parsed metadata",
                  assumptions=[VJ_ASSUME, LIBC_ASSUME, "open/fstat/mmap/close stubs return the harness' exact-size object"])))

    # ---- (3) mandatory attributes ----------------------------------------------------------------------
    us = ["c12_strcmp.0:10", "create_system.0:2", "find_loom.0:3", "create_loom.0:3", "load_cpus.0:2", "report_libovni_version.0:2"]
    for f in ("loom_find_proc", "proc_find_thread", "proc_add_thread", "loom_add_proc", "loom_find_cpu", "loom_add_cpu"):
        us += ["%s.0:2" % f, "%s.1:2" % f]
    obs.append(Obligation(
        name="metadata_attrs", harness="C12/meta_attrs.c", defines=["VJSON_MAX_NODES=24", "VJSON_MAX_CHILDREN=12"],
        srcs=["src/emu/stream.c", "src/emu/path.c", "src/emu/clkoff.c"], incdirs=["stubs/uthash_model"],
        native_cflags=["-ffunction-sections", "-fdata-sections", "-Wl,--gc-sections"], unwind=14, unwindset=us, timeout=900,
        desc=dict(functions=["create_system", "is_thread_stream", "create_loom", "find_loom", "create_proc", "create_thread", "system_get_lpt",
                             "report_libovni_version", "loom_name", "loom_init_begin", "loom_load_metadata", "load_cpus", "loom_find_proc", "loom_add_proc",
                             "proc_stream_get_pid", "proc_init_begin", "proc_load_metadata", "load_appid", "load_rank", "proc_find_thread", "proc_add_thread",
                             "thread_stream_get_tid", "thread_init_begin", "thread_load_metadata", "stream_metadata", "stream_data_set", "stream_data_get"],
                  symbolic="one stream.json: the `ovni` object absent / of any type; ovni.part, loom, pid, tid, finished, app_id, rank, nranks, lib, lib.version, "
                           "lib.commit each independently absent or present with ANY of the 6 JSON types and (as a number) any value in (-2^30, 2^30); part as a "
                           "string is 'thread' or 'other'; loom_cpus absent or one CPU",
                  bound="one stream; three shapes of the two string attributes the code copies / compares (part string, part unusable, loom unusable), all in the one query",
                  out="loom_cpus contents and every cross-stream merge / conflict (C15); numbers outside (-2^30, 2^30) or non-integral; loom names with '/'",
                  oracle="create_system == -1 IF ovni.part is missing / not a string, or the part is 'thread' and ovni.loom is missing / not a string, ovni.pid or ovni.tid "
                         "is missing / not a number / <= 0, or ovni.finished is missing / not a number / != 1; == -1 ONLY IF that or an optional attribute is unusable "
                         "(app_id not a number or <= 0, rank not a number / < 0 / without nranks > rank); another part is ignored (0, not mapped); on accept the stream is "
                         "mapped to a thread / process / loom with its tid / pid / loom name / metadata / app id; report_libovni_version == -1 iff ovni.lib.version or "
                         "ovni.lib.commit is missing or not a string; strcmp never sees NULL; no die()",
                  assumptions=[VJ_ASSUME, UT_ASSUME, SYS_ASSUME])))

    # ---- (4a) ovni.require -> enabled models -> model_event -------------------------------------------
    obs.append(Obligation(
        name="model_gate", harness="C12/model_gate.c", unwind=12, unwindset=["model_probe.0:257", "model_probe.1:257"], timeout=900,
        native_cflags=UNRES, extra=["--max-field-sensitivity-array-size", "256", "--object-bits", "10"],
        desc=dict(functions=["model_init", "model_register", "model_probe", "model_version_probe", "should_enable", "model_event", "version_parse", "version_is_compatible"],
                  symbolic="one thread: metadata missing or not; `ovni` and `ovni.require` each absent / of any JSON type; the entry of model A absent / of any JSON type, "
                           "as a string one of 1.2.0, 1.0.7 (compatible), 1.3.0, 2.0.0 (incompatible with 1.2.0); result of model B's (ghost) probe hook: any int; "
                           "model byte of one event: 0..255; result of the event handler: any int",
                  bound="two registered models in the real 256-entry tables (A: real version probe + handler, B: ghost probe, no handler), one stream, one event; -a off",
                  out="syntax of version strings and -a (C14); an entry that is present but not a string counts as 'not required' (as implemented; the documentation is silent)",
                  oracle="model_probe == -1 iff the thread has no metadata / no usable ovni.require dictionary, requires an incompatible version, or a hook fails; else a model is "
                         "enabled iff the stream requires it (nothing else is); model_event == -1 without running a handler iff the event's model is not registered or not "
                         "enabled, else the handler runs exactly once and its failure is reported",
                  assumptions=[VJ_ASSUME, LIBC_ASSUME, "model_evspec_init (event catalogue, C18) replaced by a success stub",
                               "lookups of `ovni.require` and of entry A are answered with the constant the case-split shape implies, after asserting that the ghost "
                               "document agrees (keeps version_parse on constant strings)"])))

    # ---- (4b)+(5) unknown MCVs and payload shapes, decoded by the real emu_ev --------------------------
    for m in ("ovni", "nosv", "nanos6"):
        obs.append(payload_ob("payload_%s" % m, m, KF))
    if KF_D5:
        for name, m, defs, what in (
                ("emu_ev_stale_jumbo_D5_confirm", "ovni", ["KF_D5_ONLY"],
                 "D5: emu_ev() leaves is_jumbo == 1 from the previous (jumbo) event when the next event is a normal event with payload"),
                ("payload_nosv_D5_confirm", "nosv", ["KF_D5_ONLY", "KF_D5_CONSEQ"],
                 "D5 (consequence): a NORMAL VYc event that follows any jumbo event passes the handler's jumbo check and is used as a task-type definition")):
            c = payload_ob(name, m, defs, expect_fail=True, witness=False)
            c.kf = dict(id="D5", what=what)
            obs.append(c)

    # ---- propagation: stream -> player, stream_load -> trace_load, stages -> emu_*, emu_* -> exit status -----
    pl_desc = dict(
        functions=["player_init", "step_stream", "check_clock_gate", "player_step", "update_clocks", "stream_cmp", "player_ev", "player_stream"],
        symbolic="two streams: each inactive / first step fails / loads an event / has no events; second step of the current stream fails / loads an event / ends "
                 "(48 control scripts, case-split); all four clocks in [0, 2^43); sorted or unsorted mode",
        bound="2 streams, player_init + 2 player_step calls",
        oracle="player_init == -1 iff the first step of an active stream fails or (sorted) two started streams begin > 1 h apart; player_step == -1 iff re-stepping the "
               "current stream fails or (sorted) the next event in global order is older than the current one, +1 iff no event is left, else 0 and the pending event "
               "with the smallest clock is handed to emu_ev with its clock and distance to the first event",
        assumptions=["stream_step is a ghost returning scripted results and clocks (its real body: stream_bytes); emu_ev is a recorder"])
    obs.append(Obligation(
        name="player_errors", harness="C12/player.c", defines=["SPEC_HEAP"], unwind=8, timeout=900, native_cflags=UNRES,
        desc=dict(pl_desc, out="more streams / steps (C03); the real intrusive heap (thorough tier, C03)",
                  assumptions=pl_desc["assumptions"] + ["SPEC_HEAP: src/include/heap.h replaced by a two-element priority-queue specification (pop returns a member that is "
                                                        "maximal for the caller's comparator); the real heap is checked against it by C03 and by player_errors_real_heap"])))
    if thorough:
        obs.append(Obligation(
            name="player_errors_real_heap", harness="C12/player.c", defines=["REAL_HEAP_SCENARIOS"], unwind=8,
            unwindset=["heap_max_heapify:3", "heap_get.0:3", "heap_insert.0:3"], timeout=1800, native_cflags=UNRES,
            desc=dict(pl_desc, functions=pl_desc["functions"] + ["heap_init", "heap_insert", "heap_pop_max", "heap_max_heapify", "heap_get (src/include/heap.h)"],
                      bound="2 streams, player_init + 2 player_step calls; the 6 control scripts in which S0 starts and S1 starts or is inactive",
                      out="more streams / steps (C03)")))
    obs.append(Obligation(
        name="trace_load_errors", harness="C12/trace_load.c", srcs=["src/rt/ovni.c", "src/parson.c"], unwind=20, timeout=600,
        unwindset=["trace_load.0:6", "trace_load.1:6", "trace_load.2:4", "trace_load.3:4", "v_strcmp.0:13"], native_cflags=NATIVE_GC,
        desc=dict(functions=["trace_load", "cb_nftw", "is_stream", "load_stream", "add_stream", "cmp_streams", "path_copy", "path_dirname", "path_filename",
                             "path_remove_trailing"],
                  symbolic="0..2 stream directories (t/a, t/b/c) and which of them fail to load (case-split); opendir fails or not; result of closedir: any int",
                  bound="<= 2 streams, concrete directory names, PATH_MAX re-scaled to 48",
                  out="the file-system walk itself (nftw is the enumeration ghost); order independence (C03)",
                  oracle="trace_load == -1 iff the directory cannot be opened/closed or some stream.json found fails to load (a bad stream is never skipped; loading stops at "
                         "the first one); else 0 and the trace lists exactly the loaded streams, sorted",
                  assumptions=[LIBC_ASSUME, "nftw ghost stops at the first non-zero callback result and returns it, like nftw(3); stream_load is a ghost with a scripted result "
                               "(its real body: stream_load obligation); calloc hands out static streams"])))
    obs.append(Obligation(
        name="emu_stages", harness="C12/emu_stages.c", unwind=8, timeout=600, native_cflags=UNRES,
        desc=dict(functions=["emu_init", "emu_connect", "emu_step", "set_current", "panic", "emu_finish"],
                  symbolic="result of every callee (trace_load, system_init, recorder_init, system_connect, player_init, models_register, model_probe, model_create, "
                           "model_connect, bay_propagate, player_step, recorder_advance, model_event, model_finish, recorder_finish): any int; whether the event's stream "
                           "belongs to the system; model byte of the delivered event",
                  bound="one call of one of emu_init / emu_connect / emu_step / emu_finish",
                  out="the callees themselves (other obligations / properties)",
                  oracle="emu_init == 0 iff all eight stages return 0 (sorted player mode); emu_connect == 0 iff both do; emu_step == -1 iff player_step < 0, the stream is unknown, "
                         "or recorder_advance / model_event / bay_propagate fail, +1 iff player_step > 0, else 0 with exactly one model_event call on the delivered event and "
                         "its model byte; emu_finish == 0 iff model_finish and recorder_finish succeed, and the recorder is finished even after a model failure",
                  assumptions=["every callee of emu.c is a recording stub with an arbitrary result"])))
    nsteps = 5 if thorough else 3
    obs.append(Obligation(
        name="main_status", harness="C12/main.c", defines=["NSTEPS=%d" % nsteps], unwind=64, timeout=600, native_cflags=UNRES,
        desc=dict(functions=["main (src/emu/ovniemu.c)", "stop_emulation"],
                  symbolic="results of emu_init, emu_connect, emu_finish and of up to %d emu_step calls: any int; the step during which SIGINT arrives (or never); argc" % nsteps,
                  bound="<= %d emu_step calls" % nsteps,
                  out="the stages themselves (emu_stages and below); allocation failure of struct emu",
                  oracle="exit status 0 and exactly one INFO line saying ok ('finished ok' / 'finished partially but ok' after ^C) iff emu_init, emu_connect, every emu_step "
                         "and emu_finish succeeded; otherwise status 1 and no line saying ok; emu_finish still runs after a failing step",
                  assumptions=["emu_init/emu_connect/emu_step/emu_finish are stubs with arbitrary results; SIGINT is delivered during an emu_step call; info() lines are recorded"])))
    # ---- model requirements of EVERY stream are checked (a seeded change stopped at the first stream that
    # requires the model; C12's model_gate has one stream per model).  This is C14's `version_probe`
    # obligation (real model_version_probe / should_enable over <=3 streams with symbolic version strings),
    # re-run under this property: "version-mismatched metadata ... is rejected".
    from checks import C14 as _c14
    for ob in _c14.obligations(tier, sc):
        if ob.name == "version_probe":
            ob.name = "require_versions_all_streams"
            obs.append(ob)
    return obs
