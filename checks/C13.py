import os
import subprocess
from vp import core
from vp.core import Obligation

LEVEL_TEXT = ("C13: bounded symbolic execution of the real Paraver writers (prv.c, prf.c, pcf.c) through a recording fprintf "
              "(numbers printed, not text), of system_connect / thread.c / cpu.c / model_pvt.c and every model's setup.c + event.c "
              "against recording prv/pcf/prf stubs: timestamps non-decreasing, rows within nrows, header = last time, registered "
              "types declared in the same pvt, values of labelled state types labelled, .row = nrows names in gindex order.")

MANIFEST = dict(
    level_text=LEVEL_TEXT,
    level_note=("Per-unit, per-step proofs glued by stated contracts: prv.c for 2 channels x 2-3 steps with row < nrows assumed; "
                "callers shown to pass row = gindex < nrows for a 2-thread/2-CPU ghost system; label obligations cover every "
                "cell of each model's 256x256 event table symbolically and run the real handlers once for every table entry, "
                "every printable value of the switch-handled categories and representatives of unknown events, with the task "
                "module over-approximated.  Trusted: cbmc 6.11 + SAT back end, goto-cc, the recorders in harness/C13, uthash "
                "list model, native gcc only for listing table entries (list proven complete by CBMC).  Known finding: cpu.prv "
                "types 1,2,3 are not declared in cpu.pcf (excluded by signature, confirmed by its own query).  Outside: byte-exact "
                "text, .cfg copying, PCF colour section, values shown by the breakdown trace (its rows / row names / event type are covered by "
                "breakdown_rows_* for global CPU lists of up to 9 CPUs in 1-4 looms) and mark traces, event sequences, >2 channels per prv."),
    technique=("CBMC 6.11 bounded symbolic execution of the real C units; fprintf/fopen/fseek/fclose, prv_register, pcf_add_*, "
               "prf_add, chan_* replaced by recording stubs inside the harness TU; independent reference oracles; unwinding "
               "assertions; -DWITNESS reachability twins; native ASan replay of counterexamples"))

UT = ["stubs/uthash_model"]
NOLINK = ["-no-pie", "-Wl,--unresolved-symbols=ignore-all"]   # native replay: units not reached by the harness stay unresolved
MODELS = ["nosv", "nanos6", "nodes", "tampi", "mpi", "openmp", "kernel", "ovni"]
TABLE_MODELS = ["nosv", "nanos6", "nodes", "tampi", "mpi", "openmp"]


KF_CPU_TEXT = ("cpu.prv carries event types 1, 2, 3 (PRV_CPU_PID, PRV_CPU_TID, PRV_CPU_NRUN registered by cpu_connect) "
               "that are never declared in cpu.pcf: no pcf_add_type for them anywhere in src/emu")


def kf_listed(define):
    try:
        return any(k.get("property") == "C13" and k.get("define") == define and k.get("status") == "open"
                   for k in core.load_known_findings())
    except Exception:
        return False


def gen_pairs(sc, m):
    """Build + run harness/C13/gen_pairs.c natively for model m; returns the generated header path."""
    out = os.path.join(sc.gen, "c13_pairs_%s.h" % m)
    exe = os.path.join(sc.gen, "c13_gen_pairs_%s" % m)
    cmd = ["gcc", "-std=gnu11", "-w", "-O0"] + core.include_flags(sc.gen) + ["-DM_%s" % m] + NOLINK + \
          [os.path.join(core.VERIF, "harness/C13/gen_pairs.c"), "-o", exe]
    r = subprocess.run(cmd, capture_output=True, text=True)
    if r.returncode != 0:
        raise RuntimeError("gen_pairs build failed for %s: %s" % (m, r.stderr[-2000:]))
    r = subprocess.run([exe], capture_output=True, text=True)
    if r.returncode != 0:
        raise RuntimeError("gen_pairs run failed for %s" % m)
    open(out, "w").write(r.stdout)
    return out

def obligations(tier, sc):
    obs = []
    steps = 2 if tier == "quick" else 3
    obs.append(Obligation(
        name="prv_writer", harness="C13/prv.c", defines=["NSTEPS=%d" % steps],
        srcs=["src/emu/value.c"], incdirs=UT, unwind=70, timeout=900,
        desc=dict(functions=["prv_open", "prv_open_file", "write_header", "prv_register", "check_flags", "get_id",
                             "find_prv_chan", "prv_advance", "cb_prv", "emit", "is_value_dup", "write_line", "prv_close",
                             "chan_read", "value_is_equal"],
                  symbolic="fopen result, nrows 1..4, (row<nrows, type 0..2^31-1, flags 0..31) of 2 channels, per step: time (any int64), "
                           "per channel dirty?, value type null/int64/double, value (any int64)",
                  bound="2 channels, %d advance+emit steps, run ends at the first refused call" % steps,
                  out="byte-exact text; more than 2 channels / longer runs; row >= nrows at prv_register (precondition, shown by connect_* obligations); INT64_MAX with PRV_NEXT",
                  oracle="independent reference of the documented flag semantics; every recorded fprintf argument compared",
                  assumptions=["recording fprintf/fseek/fclose/fopen (harness/C13/recfile.h)", "ghost bay: emit callback called once per dirty channel",
                               "uthash list model"])))
    obs.append(Obligation(
        name="prf_writer", harness="C13/prf.c", defines=["NADD=5"],
        unwind=6, unwindset=["v_fprintf.2:30"], timeout=600,
        desc=dict(functions=["prf_open", "prf_add", "prf_close"],
                  symbolic="fopen result, nrows 1..4, 5 add indices each in -2..5 (any order, repeats, out of range), label length reported by snprintf 0..1024",
                  bound="nrows <= 4, 5 prf_add calls with 2-character labels",
                  out="label bytes (only which buffer received which label), nrows > 4",
                  oracle="reference ownership map: add ok iff in range and unset; close ok iff all set; recorded fprintf calls = 4 header lines + nrows labels in index order, SIZE = nrows",
                  assumptions=["recording fprintf/fclose/fopen (harness/C13/recfile.h)", "recording snprintf (destination, source, symbolic length result; label bytes not modelled)",
                               "calloc returns a fixed end-aligned object (allocation failure outside the claim)"])))
    obs.append(Obligation(
        name="pcf_writer", harness="C13/pcf.c", incdirs=UT, unwind=5,
        unwindset=["v_fprintf.2:30", "write_colors.0:25", "scan_records.0:49"], timeout=600,
        desc=dict(functions=["pcf_open", "pcf_add_type", "pcf_find_type", "pcf_add_value", "pcf_find_value", "pcf_close", "write_header",
                             "write_colors", "write_types", "write_type"],
                  symbolic="fopen result, 2 distinct type ids (any int), 3 values (any int, the two of the first type distinct), one probe id and probe value",
                  bound="2 types, 2 + 1 values",
                  out="label text, colour section contents, refusal of re-declaring an id (only the lookups are probed), more types/values",
                  oracle="recorded fprintf calls: every declared type printed once with its id followed by exactly its values in declaration order, "
                         "nothing else printed as type/value; pcf_find_* return exactly the declared objects",
                  assumptions=["recording fprintf/fclose/fopen (harness/C13/recfile.h)", "uthash list model",
                               "calloc served from typed zeroed static pools (allocation failure outside the claim)", "snprintf writes nothing (V_PRINTF_NULL)"])))
    obs.append(Obligation(
        name="task_type_labels", harness="C13/tasktypes.c", srcs=["src/emu/body.c"], incdirs=UT, unwind=12, timeout=600,
        desc=dict(functions=["task_create_pcf_types"],
                  symbolic="gid (1000..2^31-1) and label (2 alternatives) of 3 task types spread over 2 processes",
                  bound="2 processes, 1 + 2 task types, labels of 1 character",
                  out="task_get_type_gid hashing, label text beyond the first bytes, that task->type is in the process table (task_create, C07)",
                  oracle="finish succeeds iff no two different labels share a gid; then every type's gid is found in the pcf type with its own label",
                  assumptions=["array model of pcf_add_value/pcf_find_value (add once, find what was added)", "uthash list model (iteration through hh.next)",
                               "strcmp: CBMC built-in model"])))

    # ---- families 3 + 4 + 5 for the core (system_connect, thread.c, cpu.c, ovni thread/affinity events)
    core_desc = dict(
        functions=["init_global_indices", "system_connect", "thread_connect", "thread_create_pcf_types", "thread_get_affinity_pcf_type",
                   "cpu_connect", "cpu_add_to_pcf_type", "model_ovni_event", "pre_thread*", "pre_affinity*", "thread_set_state",
                   "thread_set_cpu", "thread_unset_cpu", "thread_migrate_cpu"],
        symbolic="tid/pid; per thread: state 0..5 and current CPU (none/cpu0/vcpu), out-of-cpu flag; one ovni event OH*/OA* with any value byte, "
                 "payload (16 bytes, size 0..16), CPU/thread lookups answering NULL or any ghost object, result of every chan_set and cpu_* call",
        bound="1 loom, 1 process, 2 threads, 2 CPUs (physical + virtual); one event",
        out="more threads/CPUs/looms (list construction and order: C15); CPU occupancy lists (cpu_update & co. stubbed, C05); breakdown and mark traces",
        oracle="gindex = list position; recorder_add_pvt nrows = list length; prf_add index i for the i-th element, exactly nrows; "
               "prv_register row = gindex < nrows, legal flags, type pcf_add_type'd in the same pvt; every value put on the thread-state / "
               "CPU-affinity channel is labelled (affinity: gindex+1 via PRV_NEXT = value added by cpu_add_to_pcf_type)",
        assumptions=["ghost recorder/pvt/prv/pcf/prf/bay/chan API recording calls (harness/C13/core.c)",
                     "loom_get_cpu/loom_find_thread/proc_find_thread answer NULL or a CPU/thread of the global lists",
                     "cpu.pcf declares the CPU event types since the fix bdfd0ff (the former known finding is checked, not excluded)"])
    # The finding was FIXED in /repo (commit bdfd0ff "fix: declare the CPU event types in cpu.pcf"):
    # the obligation runs unguarded; C13_KF_CPU_PCF=1 re-enables the exclusion + confirmation pair.
    kf_local = ["KF_CPU_PCF_TYPES"] if (os.environ.get("C13_KF_CPU_PCF") and not kf_listed("KF_CPU_PCF_TYPES")) else []
    obs.append(Obligation(
        name="core_connect_and_event", harness="C13/core.c", defines=list(kf_local),
        srcs=["src/emu/value.c"], incdirs=UT, native_cflags=NOLINK, unwind=17, timeout=600, desc=core_desc))
    if kf_local:
        # Confirmation query of the finding (must FAIL and reproduce natively).  Once the lead lists it in
        # known_findings.json (obligation core_connect_and_event, define KF_CPU_PCF_TYPES) the driver
        # generates both queries itself and this local fallback switches off.
        c = Obligation(
            name="core_connect_and_event@kf:C13-cpu-pcf-types", harness="C13/core.c", defines=["KF_CPU_PCF_TYPES_ONLY"],
            srcs=["src/emu/value.c"], incdirs=UT, native_cflags=NOLINK, unwind=17, timeout=600, desc=core_desc,
            expect_fail=True, witness=False)
        c.kf = dict(id="C13-cpu-pcf-types", what=KF_CPU_TEXT)
        obs.append(c)

    obs.append(Obligation(
        name="task_type_gid_range", harness="C13/gid.c", incdirs=UT, native_cflags=NOLINK, unwind=10, timeout=300,
        desc=dict(functions=["task_get_type_gid"],
                  symbolic="the 32-bit hash of the task-type label (all 2^32 values: the Jenkins hash is replaced by an arbitrary value)",
                  bound="complete over hash values", out="which hash values real labels reach (over-approximated)",
                  oracle="gid <= INT_MAX, gid >= PCF_RESERVED, (int) gid == gid: the .prv value (int64) is the value labelled in the .pcf ((int) gid)",
                  assumptions=["HASH_VALUE of uthash replaced by an arbitrary 32-bit value"])))

    for m in ("nosv", "nanos6"):
        obs.append(Obligation(
            name="finish_types_%s" % m, harness="C13/finish_types.c", defines=["M_%s" % m], srcs=["src/emu/extend.c"],
            incdirs=UT, native_cflags=NOLINK, unwind=8, timeout=300,
            desc=dict(functions=["finish_pvt (%s/setup.c)" % m, "extend_set", "extend_get"],
                      symbolic="emulation finished or interrupted; which trace (thread / cpu)",
                      bound="3 processes in 2 looms (global list P0,P2,P1; loom chains {P0,P2} and {P1})",
                      out="the contents of the type tables (task_type_labels obligation); model_<m>_finish calling finish_pvt for both traces (read)",
                      oracle="task_create_pcf_types is called exactly once for every process of the system, with the task-type pcf type of the requested trace",
                      assumptions=["recorder_find_pvt / pvt_get_pcf / pcf_find_type / task_create_pcf_types are recorders"])))

    # ---- rows of the <model>-breakdown trace: declared = physical CPUs of ALL looms, registered rows within it
    for m in ("nosv", "nanos6"):
        obs.append(Obligation(
            name="breakdown_rows_%s" % m, harness="C13/breakdown_rows.c", defines=["M_%s" % m, "MAXN=9"],
            srcs=["src/emu/extend.c"], incdirs=UT, native_cflags=NOLINK, unwind=11, timeout=600,
            desc=dict(functions=["model_%s_breakdown_create" % m, "model_%s_breakdown_connect" % m, "model_%s_breakdown_finish" % m,
                                 "create_cpu", "connect_cpu"] + (["check_thread_metadata"] if m == "nosv" else []) +
                                ["extend_set", "extend_get"],
                      symbolic="length n of the global CPU list (2..9, case-split: constant per path); which of the n CPUs are loom virtual CPUs "
                               "(every pattern system.c can build: each loom >= 1 physical CPU followed by its vCPU, i.e. 1..4 looms and every split of "
                               "up to 8 physical CPUs among them, including loom A = 2 CPUs + vCPU, loom B = 1 CPU + vCPU); -b given or not; "
                               "thread metadata answers (nOS-V); recorder_add_pvt failing; the k-th prv_register failing",
                      bound="global CPU list of at most 9 CPUs (<= 8 physical, <= 4 looms); one thread, one process; create -> connect -> finish once",
                      out="what the rows show (sort/mux semantics: C20); label texts of the rows ('~CPU n') and which sort output is on which row "
                          "(not documented); construction of the global CPU list and gindex (core_connect_and_event, C15); prv.c/prf.c themselves "
                          "(prv_writer / prf_writer)",
                      oracle="reference count of physical CPUs from the inputs: recorder_add_pvt once with nrows = #physical CPUs; every prv_register "
                             "on the prv of that pvt with 0 <= row < nrows (also on paths that fail later); on success rows 0..nrows-1 each exactly once, "
                             "carrying the nrows sort outputs each exactly once, sort module of nrows inputs each fed once by the tri of a distinct "
                             "physical CPU and by no virtual CPU; the registered type is the one finish declares in the same pvt's pcf; prf_add names "
                             "each index 0..nrows-1 exactly once and nothing else",
                      assumptions=["ghost recorder_add_pvt / pvt getters / prv_register / prf_add / pcf_add_* / task_create_pcf_types (recorders)",
                                   "ghost sort_init / sort_set_input / sort_get_output (record n, inputs; output handles never dereferenced; an index "
                                   "outside the n allocated slots is flagged instead of written)",
                                   "mux_init / mux_set_input / mux_set_default / chan_init / bay_register are no-ops that succeed",
                                   "gindex = position in the global CPU list, vCPU of a loom right after its physical CPUs (system.c init_global_lists / "
                                   "init_global_indices, shown by core_connect_and_event)"])))

    # ---- families 3 + 4 per model: types declared, labels present
    for m in MODELS:
        pairs_h = gen_pairs(sc, m)
        common = dict(harness="C13/model.c", srcs=["src/emu/extend.c", "src/emu/value.c"], incdirs=UT,
                      native_cflags=NOLINK, unwind=330, timeout=900)
        base_desc = dict(
            assumptions=["ghost recorder/pvt/prv/pcf/track/mux/chan API recording calls (harness/C13/model.c)",
                         "task/body API over-approximated by arbitrary results on a ghost task",
                         "model_thread_connect/model_cpu_connect reduced to their model_pvt_connect_* call",
                         "allocation failure outside the claim"])
        if m in TABLE_MODELS:
            obs.append(Obligation(
                name="labels_table_%s" % m, defines=["M_%s" % m, "PHASE_TABLE", 'C13_PAIRS_H="%s"' % pairs_h], **common,
                desc=dict(functions=["model_%s_connect" % m, "model_pvt_connect_thread", "model_pvt_connect_cpu", "connect_thread_prv", "connect_cpu_prv",
                                     "init_pcf", "create_type", "create_values", "event table + pvt spec tables of src/emu/%s/{event,setup}.c" % m],
                          symbolic="gindex of 2 threads and 2 CPUs; event category c and value v (all 65536 table cells in one query)",
                          bound="2 threads + 2 CPUs; one table cell",
                          out="values reaching a channel other than through the table (obligation labels_events_%s)" % m,
                          oracle="prv_register type must have been pcf_add_type'd in the same pvt, row = gindex, legal flags; "
                                 "push/set value of a table cell must be pcf_add_value'd for the registered type in thread and cpu pcf",
                          **base_desc)))
        obs.append(Obligation(
            name="labels_events_%s" % m, defines=["M_%s" % m, 'C13_PAIRS_H="%s"' % pairs_h] +
                 ([] if tier == "quick" else ["EV_LO=0", "EV_HI=256"]), **common,
            desc=dict(functions=["model_%s_event" % m, "process_ev/simple/pre_task/update_task/... (src/emu/%s/event.c)" % m,
                                 "model_%s_connect" % m, "model_pvt_connect_thread", "model_pvt_connect_cpu", "init_pcf", "create_type", "create_values"],
                      symbolic="gindex of 2 threads and 2 CPUs; one event: (c,v) over every table entry + every %s v of switch-handled categories + "
                               "representatives without entry, payload bytes and size, jumbo flag, thread running/active/out-of-cpu flags, "
                               "proc rank/appid, results of every chan_* and task_* call, ghost task id/type gid/flags/body" % ("printable" if tier == "quick" else "8-bit"),
                      bound="one event from an arbitrary scalar state; 2 threads + 2 CPUs",
                      out="(c,v) pairs without table entry outside the representatives; event sequences (C08); mark channels (user-defined types)",
                      oracle="every int64 put on a channel whose registered type has labels is 0 or labelled (thread and cpu pcf); "
                             "task-type channel carries only the ghost task type gid",
                      **base_desc)))
    # ---- header duration = time of the LAST EVENT: prv_writer shows that prv_close writes the last time given to
    # prv_advance; that every event (also one that changes no channel) advances every trace to its time before the
    # model runs is C03's `E_paraver_time` obligation on the real emu_step / recorder_advance / pvt_advance /
    # prv_advance, re-run under this property (a seeded change skipped the advance for events that leave no
    # channel dirty: the header then carried the time of the last channel-changing event).
    from checks import C03 as _c03
    for ob in _c03.obligations(tier, sc):
        if ob.name == "E_paraver_time":
            ob.name = "every_event_advances_trace_time"
            obs.append(ob)
    # ---- mark timelines: the event types written to thread.prv AND cpu.prv are the ones declared in the matching
    # .pcf (100 + mark type, with the registered labels): C17's wiring obligations on the real mark_connect, re-run
    # under this property (a seeded change registered the CPU view's rows under 100 + definition index).
    from checks import C17 as _c17
    for ob in _c17.obligations(tier, sc):
        if ob.name.startswith("C_wiring_"):
            ob.name = "mark_types_declared_" + ob.name[len("C_wiring_"):]
            obs.append(ob)
    return obs
