from vp.core import Obligation

LEVEL_TEXT = ("C07: one inductive step of the task/body life-cycle from every enumerated stack topology "
              "(2 tasks, <=3 bodies, 2 thread stacks, depth <=2) with all scalar state symbolic under a "
              "representation invariant; iff oracle on acceptance + full post-state, at the body/task module "
              "and at the nOS-V and Nanos6 event layers (channels included).")

MANIFEST = dict(
    level_text=LEVEL_TEXT,
    level_note=("Inductive: base case (state built by the real functions/events satisfies Inv and Inv2) + one symbolic step "
                "from every state of Inv inside the enumerated topologies, so every history whose states stay inside the "
                "bound (2 tasks, <=3 bodies, 2 threads, stack depth <=2 before the step) is covered, not only sampled ones. "
                "Real: body.c, task.c, nosv/event.c, nanos6/event.c, channel kind/dup tables of <model>/setup.c, utlist. "
                "Modelled: uthash (list model), chan_set/push/pop/read (recorded reference channel, real chan.c is C08), "
                "snprintf (empty), calloc never fails. Trusted: cbmc 6.11 + SAT back end, goto-cc, gcc ASan replay. "
                "Oracle for the event layers includes the subsystem-stack rule (end needs 'task body' on top; Nanos6 refuses "
                "a second consecutive 'task body' push), see the informational query nanos6_pure_task_history."),
    technique="bounded symbolic execution (CBMC, SAT) of the real C: enumerated concrete pointer topologies x symbolic "
              "scalars under a representation invariant x one symbolic event; iff oracle from the documentation over a "
              "ghost state; reachability witnesses; native ASan replay of counterexamples")

NAMES = {0: "", 1: "a1", 2: "a2", 3: "b1"}


def topologies(max_a=2, max_b=1, bottom_ok=lambda who: True, reduce=True):
    """All (nb_a, nb_b, s0, s1) with s0/s1 tuples (bottom, top) of distinct existing bodies.
    reduce=True: up to the symmetries stack0<->stack1 (the acting stack is symbolic or enumerated)
    and a1<->a2 (quick tier); reduce=False: every topology (thorough tier, cross-checks the symmetry)."""
    out = []
    seen = set()
    for nb_a in range(max_a + 1):
        for nb_b in range(max_b + 1):
            ex = [w for w in (1, 2) if w <= nb_a] + ([3] if nb_b else [])
            stacks = [()] + [(w,) for w in ex] + [(w, v) for w in ex for v in ex if w != v]
            for s0 in stacks:
                for s1 in stacks:
                    if set(s0) & set(s1):
                        continue
                    if any(len(s) == 2 and not bottom_ok(s[0]) for s in (s0, s1)):
                        continue
                    def canon(a, b):
                        return tuple(sorted([a, b]))
                    sw = lambda s: tuple({1: 2, 2: 1}.get(w, w) for w in s)
                    keys = [canon(s0, s1)]
                    if nb_a == 2:
                        keys.append(canon(sw(s0), sw(s1)))
                    key = (nb_a, nb_b, min(keys)) if reduce else (nb_a, nb_b, s0, s1)
                    if key in seen:
                        continue
                    seen.add(key)
                    out.append((nb_a, nb_b, s0, s1))
    return out


def topo_defines(nb_a, nb_b, s0, s1):
    pad = lambda s: (list(s) + [0, 0])[:2]
    a, b = pad(s0), pad(s1)
    return ["NB_A=%d" % nb_a, "NB_B=%d" % nb_b, "S0B=%d" % a[0], "S0T=%d" % a[1], "S1B=%d" % b[0], "S1T=%d" % b[1]]


def topo_name(nb_a, nb_b, s0, s1):
    # stacks are written bottom.top
    f = lambda s: ".".join(NAMES[w] for w in s) or "-"
    return "A%dB%d_%s_%s" % (nb_a, nb_b, f(s0), f(s1))


def obligations(tier, sc):
    obs = []
    red = (tier == "quick")
    for t in topologies(reduce=red):
        obs.append(Obligation(
            name="module_" + topo_name(*t), harness="C07/body_task.c",
            defines=topo_defines(*t),
            srcs=["src/emu/pv/pcf.c"],
            incdirs=["stubs/uthash_model"],
            unwind=8, timeout=600,
            desc=dict(functions=["task_find", "task_execute", "task_pause", "task_resume", "task_end", "create_body",
                                 "body_find", "body_create", "body_execute", "body_pause", "body_resume", "body_end",
                                 "body_get_running", "task_get_running", "task_get_top", "task_create", "task_type_create",
                                 "DL_PREPEND/DL_DELETE (utlist, real)"],
                      symbolic="task flags of both tasks (16x16), task ids, body ids, body states consistent with the position "
                               "(Inv), iteration counters; the action: execute/pause/resume/end, task id (known/unknown), "
                               "body id (known/unknown/0), which stack",
                      bound="topology %s: 2 tasks, bodies a1,a2,b1, 2 stacks of depth <=2; one step" % topo_name(*t),
                      out="stacks deeper than 2 before the step (same code path; Inv quantifies over the built depth); "
                          "calloc failure; task type label hash collisions",
                      oracle="ref_step(): documented body model (doc/user/emulation/nosv.md Task model + property text): "
                             "accepted iff legal; post-state equality with the ghost (states, stack order, counts, "
                             "iteration) and Inv again",
                      assumptions=["uthash list model (stubs/uthash_model)", "snprintf writes an empty string (names are diagnostics only)",
                                   "iteration counter < 2^63-1"])))
    obs += model_obligations("nosv", tier)
    obs += model_obligations("nanos6", tier)
    obs += pure_history_obligations()
    return obs


def pure_history_obligations():
    """Histories made ONLY of task events (the quantifier of the property, literally): the subsystem stack holds one
    'task body' entry per body on the thread's stack and the oracle is the body model alone.
    nOS-V: holds (a regular obligation).  Nanos6: the emulator refuses to nest (6Tx 1, [6Tp 1,] 6Tx 2) because its
    subsystem channel does not allow two equal consecutive values; reproduced with the real ovniemu.  Real Nanos6
    traces always carry another subsystem event in between, so this is reported as an informational query (NOTE),
    not as a violation; the regular Nanos6 obligations carry the rule explicitly in the oracle."""
    obs = []
    t = (1, 1, (), (1,))       # A1B1: a1 on stack 1, b1 ended; event on thread 1
    for model in ("nosv", "nanos6"):
        defs = topo_defines(*t) + ["EV_THR=1", "PURE_TASK_HISTORY=1"] + (["MODEL_N6=1"] if model == "nanos6" else ["A_PAR=0"])
        obs.append(Obligation(
            name="%s_pure_task_history" % model, harness="C07/model.c", defines=defs, srcs=MODEL_SRCS,
            incdirs=["stubs/uthash_model"], native_cflags=MODEL_NATIVE,
            unwind=8, timeout=900, extra=["--object-bits", "12"],
            info_only=(model == "nanos6"), witness=(model == "nosv"),
            desc=dict(functions=["model_%s_event" % model, "update_task", "update_task_ss_channel", "task.c", "body.c"],
                      symbolic="as the regular %s obligations, with the subsystem stack fixed to one 'task body' entry per "
                               "body on the thread's stack (history of task events only)" % model,
                      bound="topology %s, event on thread 1; one event" % topo_name(*t),
                      out="as the regular obligations",
                      oracle="body model alone (no subsystem-stack rule): accepted iff legal",
                      assumptions=["recorded channels (reference model of chan.c)",
                                   "Nanos6 variant is informational: expected to fail (nesting refused by the subsystem "
                                   "channel's duplicate rule when no other subsystem event lies in between)"])))
    return obs


MODEL_SRCS = ["src/emu/extend.c", "src/emu/value.c", "src/emu/pv/pcf.c"]
# <model>/setup.c is #included only for its static channel tables (th_chan); the rest of the
# emulator it references is never called, so the native replay links with those symbols open.
MODEL_NATIVE = ["-no-pie", "-Wl,--unresolved-symbols=ignore-all"]


def model_obligations(model, tier):
    obs = []
    red = (tier == "quick")
    if model == "nosv":
        cfgs = []
        # A normal (VTc): one body; A parallel (VTC): two bodies, which can never sit under another body
        for t in topologies(max_a=1, reduce=red):
            cfgs.append((0, t))
        for t in topologies(max_a=2, bottom_ok=lambda who: who == 3, reduce=red):
            cfgs.append((1, t))
    else:
        cfgs = [(0, t) for t in topologies(max_a=1, reduce=red)]
    # the emitting thread is enumerated too (EV_THR); skipped where both stacks are equal
    cfgs = [(par, t, thr) for par, t in cfgs for thr in (0, 1) if thr == 0 or t[2] != t[3]]
    for par, t, thr in cfgs:
        defs = topo_defines(*t) + ["EV_THR=%d" % thr]
        if model == "nosv":
            defs.append("A_PAR=%d" % par)
            name = "nosv_%s_%s_t%d" % ("par" if par else "nor", topo_name(*t), thr)
            fns = ["model_nosv_event", "process_ev", "pre_task", "create_task", "update_task", "update_task_state",
                   "update_task_ss_channel", "expand_transition_value", "update_task_channels", "chan_body_running",
                   "chan_body_stopped", "chan_body_switch", "enforce_task_rules"]
        else:
            defs.append("MODEL_N6=1")
            name = "nanos6_%s_t%d" % (topo_name(*t), thr)
            fns = ["model_nanos6_event", "process_ev", "pre_task", "create_task", "update_task", "update_task_state",
                   "update_task_ss_channel", "expand_transition_value", "update_task_channels", "chan_task_running",
                   "chan_task_stopped", "chan_task_switch", "enforce_task_rules"]
        obs.append(Obligation(
            name=name, harness="C07/model.c", defines=defs, srcs=MODEL_SRCS,
            incdirs=["stubs/uthash_model"], native_cflags=MODEL_NATIVE,
            unwind=8, timeout=900, extra=["--object-bits", "12"],
            desc=dict(functions=fns + ["task_create", "task_find", "task_execute", "task_pause", "task_resume", "task_end",
                                       "create_body", "body_*", "extend_get"],
                      symbolic="event value (any byte), task id, body id / type id, emitting thread; task ids, body ids of "
                               "parallel bodies, body states consistent with the position (Inv), iteration counters, type gids, "
                               "app id, rank (or none), channel values consistent with the running body (Inv2), subsystem "
                               "stack of each thread (any depth 0..512, arbitrary top two entries)",
                      bound="topology %s%s, event on thread %d: 2 tasks, <=3 bodies, 2 threads of one process, depth <=2; one event"
                            % (topo_name(*t), " (A parallel)" if par else "", thr),
                      out="payload sizes other than the documented ones (C12); thread not active / out of CPU (C04); "
                          "task type creation events and label hash collisions; propagation of the channels through "
                          "bay/mux/prv (C06, C13); stacks deeper than 2 before the event",
                      oracle="ref_event(): body-id rule + documented body model + subsystem push/pop rule; iff on acceptance; "
                             "post-state equals the ghost; BODYID/TASKID/TYPE/APPID/RANK = running body of the thread or null; "
                             "other thread untouched",
                      assumptions=["uthash list model (stubs/uthash_model)", "snprintf writes an empty string (names are diagnostics only)",
                                   "iteration counter < 2^63-1",
                                   "recorded channels: chan_set/chan_push/chan_pop/chan_read/chan_flush are a reference model of "
                                   "chan.c (single/stack kind, no write while dirty, duplicate of the last flushed value refused "
                                   "unless ALLOW_DUP, stack full/empty/mismatch); the real chan.c is C08's subject",
                                   "every dirty channel is flushed between events (bay_propagate); channel kind/duplicate "
                                   "properties taken from the real th_chan tables of <model>/setup.c as model_thread.c:init_chan does",
                                   "existing task ids != 0, type gid != 0, appid > 0, -1 <= rank < INT_MAX (guaranteed by proc.c / task_get_type_gid)"])))
    return obs
