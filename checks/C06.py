"""C06 - view consistency of the tracking muxes (thread / CPU timelines).

Three obligation families (DESIGN.md C06), composed as  B + M + W (+ C04/C05 for the
correctness of the STATE / th_running channels themselves):

  B  harness/C06/bay.c      the REAL bay.c + chan.c with recorder callbacks refines the ghost
                            bay of harness/C06/ghost_bay.h and meets the propagation contract
  M  harness/C06/mux_*.c    the REAL mux.c + track.c + thread select functions + chan.c on
                            the ghost bay show exactly the value the property demands, for
                            every interleaving of state / affinity / value writes
  W  harness/C06/wiring.c   every model's REAL tables and connect code build exactly the
                            muxes M starts from, on the right select / input channels

bay.c + mux.c in one program never finish (function-pointer callbacks + recursion), which
is why the bay is checked alone (B) and replaced by its contract (the ghost) in M.
"""
from vp.core import Obligation

LEVEL_TEXT = ("C06: the real mux.c/track.c/select functions keep every thread and CPU view equal to the "
              "reference (value of the tracked thread iff its state / the CPU's unique running thread allows, "
              "else null or the idle default) for all write interleavings - proven as an inductive step from "
              "every state satisfying the mux invariant plus 2-3 event sequences from the constructed state, on a "
              "ghost bay that the real bay.c is proven to refine for 800 callback scenarios; every model's real "
              "tracking tables and connect code are proven to wire the muxes exactly as assumed.")

MANIFEST = dict(
    level_text=LEVEL_TEXT,
    level_note=("Bounds: 1 mux at a time, CPU muxes with 2 thread inputs, single-value channels only "
                "(CHAN_STACK inputs are outside the claim: CBMC 6.11 mishandles the stack array inside the channel union), bay scenarios with 3 channels and "
                "<=3 callbacks each.  The composition B+M+W is an argument, not a single query: bay.c and mux.c "
                "cannot be encoded together."),
    technique="CBMC 6.11 bounded symbolic execution of the real C; harness-level case split of control, symbolic data; "
              "assume-guarantee split bay (B) / mux on ghost bay (M) / wiring (W)",
)

UT = ["stubs/uthash_model"]
# thread.c / cpu.c / setup.c reference the rest of the emulator; none of it is reached
NATIVE = ["-Wl,--unresolved-symbols=ignore-all", "-no-pie"]
OBJ = ["--object-bits", "12"]

GHOST = ("harness/C06/ghost_bay.h is the bay in this obligation (polling mode, callbacks identified by "
         "name at the bay_add_cb boundary); obligation family B proves the real bay.c refines it")
COMMON = [
    "allocation never fails; mux/bay nodes come from typed zeroed pools (harness/C06/c06_common.h)",
    "value_str() diagnostics replaced by a constant string; value_is_equal()'s 16-byte memcmp compared as two 64-bit words; "
    "memset(p,0,sizeof *p) of chan_init/mux_init/bay_init replaced by assignment of a zero object",
]

# tracking mode of every thread channel, PINNED here (0 ANY, 1 RUN, 2 ACT); the PCF labels
# '... of the RUNNING thread' / '... of the ACTIVE thread' are generated from the same mode
MODELS = [
    # name,    nch, thread modes,            defines
    ("ovni",    1, [0],                      ["WSTUB_MARK"]),
    ("nanos6",  6, [1, 1, 2, 1, 0, 1],       ["HAS_IDLE", "WSTUB_N6BD"]),
    ("nosv",    7, [1, 1, 1, 1, 2, 1, 1],    ["HAS_IDLE"]),
    ("tampi",   1, [2],                      []),
    ("nodes",   1, [2],                      []),
    ("kernel",  1, [0],                      []),
    ("mpi",     1, [1],                      []),
    ("openmp",  1, [2],                      []),
]

MUX_FUNCS = ["track_init", "track_connect_thread", "track_th_input_chan", "track_set_select", "track_set_input",
             "track_get_output", "mux_init", "mux_set_input", "cb_select", "cb_input", "select_input",
             "chan_init", "chan_set", "chan_read", "chan_flush", "chan_prop_set", "set_dirty"]


def obligations(tier, sc):
    obs = []
    thorough = tier != "quick"

    # ------------------------------------------------------------------ B: bay.c alone
    for a0, what in enumerate(["nothing", "write c1", "enable D1 of c1", "disable D1 of c1", "fail"]):
        obs.append(Obligation(
            name="B_bay_a0_%d" % a0, harness="C06/bay.c", defines=["A0=%d" % a0],
            incdirs=UT, native_cflags=NATIVE, unwind=12, extra=OBJ, timeout=900,
            desc=dict(
                functions=["bay_init", "bay_register", "bay_find", "find_bay_chan", "bay_add_cb", "bay_enable_cb",
                           "bay_disable_cb", "bay_propagate", "propagate_chan", "cb_chan_is_dirty",
                           "chan_init", "chan_set", "chan_prop_set", "chan_flush", "set_dirty"],
                symbolic="first dirty callback of c0 does: %s; action of the first dirty callback of c1 (5), D1 of c1 initially "
                         "enabled (2), model also writes c1 / c2 (2x2), emit callback of c0 writes c2 (2), channels with/without "
                         "CHAN_DIRTY_WRITE (2): 160 scenarios case-split in one query; all written values symbolic int64" % what,
                bound="3 channels, 2 dirty + 1 emit callback each, one propagation",
                out="more than 3 channels / 3 callbacks per channel; callbacks that change the callback list of the channel "
                    "being propagated (contract precondition, asserted on mux.c in M); bay_remove (declared, not implemented)",
                oracle="(1) contract on the log of the real run: each callback at most once, dirty phase before emit phase, bay "
                       "state seen by callbacks, all dirty channels flushed, list empty, READY, emit-phase write refused unless "
                       "target dirty+DIRTY_WRITE, enable/disable timing; (2) refinement: same scenario on the ghost bay gives the "
                       "same return code, (phase,channel) sequence, per-callback run counts, values seen, final channel states",
                assumptions=COMMON + ["uthash list model (stubs/uthash_model)"])))

    # ------------------------------------------------------------------ M: thread muxes
    for mode in ("RUN", "ACT"):
        common = dict(
            functions=MUX_FUNCS + ["thread_select_running" if mode == "RUN" else "thread_select_active"],
            out="thread state values that do not fit an int (the select functions cast int64 to the enum); stack channels as "
                "input (cb_select/cb_input reach their input only through chan_read; CBMC 6.11 mishandles the stack array "
                "inside the channel union, a concrete-depth script produced counterexamples that do not reproduce natively); more than one mux on the same channels at once (muxes share no state; the "
                "bay-level interplay is B)",
            oracle="reference written from the property statement: view == channel value iff state in {Running} (RUN) / "
                   "{Running, Cooling, Warming} (ACT), else null; the emit callback (PRV row) saw exactly that value; input "
                   "callback enabled iff selected; mux.selected; everything clean after the propagation",
            assumptions=COMMON + [GHOST, "a rejected duplicate write stops the emulator (path ends)"])
        obs.append(Obligation(
            name="M_thread_%s_inductive" % mode.lower(), harness="C06/mux_thread.c",
            defines=["INDUCTIVE", "NSTEPS=2", "MODE=TRACK_TH_%s" % mode, "MODE_IS_ACT=%d" % (mode == "ACT")],
            srcs=["src/emu/thread.c"], incdirs=UT, native_cflags=NATIVE, unwind=18, extra=OBJ, timeout=600,
            desc=dict(common,
                      symbolic="pre-state: any of the 3 invariant cases with symbolic thread state and channel value; event: pattern "
                               "(state / value / state then value / value then state / nothing), new state (null or any int), new "
                               "value (null, int64 or double, any payload), CHAN_ALLOW_DUP of the channel",
                      bound="ONE event from ANY state satisfying the mux invariant (the step re-establishes it: unbounded sequences "
                            "by induction; base case asserted on the constructed state)")))
        steps = 3 if thorough else 2
        obs.append(Obligation(
            name="M_thread_%s_seq%d" % (mode.lower(), steps), harness="C06/mux_thread.c",
            defines=["NSTEPS=%d" % steps, "MODE=TRACK_TH_%s" % mode, "MODE_IS_ACT=%d" % (mode == "ACT")],
            srcs=["src/emu/thread.c"], incdirs=UT, native_cflags=NATIVE, unwind=18, extra=OBJ, timeout=900,
            desc=dict(common,
                      symbolic="per event: pattern (5), new state (null or any int), new value (null/int64/double), ALLOW_DUP flag",
                      bound="%d events from the state the real constructors leave (cross-check that the invariant of the "
                            "inductive obligation is what the code really reaches)" % steps)))

    # ------------------------------------------------------------------ M: CPU mux
    cpu_common = dict(
        functions=MUX_FUNCS + ["default_select", "mux_set_default"],
        out="more than 2 thread inputs per CPU mux (same default_select indexing); out-of-range th_running values other "
            "than -1, 2, INT64_MIN, INT64_MAX and doubles (th_running is proven valid by C05)",
        oracle="view == value of thread k iff th_running == k, else the idle default (null before the first selection / when "
               "no default is set); the emit callback saw exactly that; exactly the selected input's callback enabled; invalid "
               "select value => propagation fails, never a silent wrong view",
        assumptions=COMMON + [GHOST, "a rejected duplicate write stops the emulator (path ends)"])
    nwr = 3 if thorough else 2
    obs.append(Obligation(
        name="M_cpu_inductive", harness="C06/mux_cpu.c", defines=["INDUCTIVE", "NSTEPS=2", "NWR=%d" % nwr],
        incdirs=UT, native_cflags=NATIVE, unwind=18, extra=OBJ, timeout=900,
        desc=dict(cpu_common,
                  symbolic="pre-state: any of the 4 invariant cases (never selected / thread 0 / thread 1 / nobody) with symbolic "
                           "values of both thread channels; event: any sequence of <=%d distinct writes among {th_running, thread "
                           "0's channel, thread 1's channel} in any order, symbolic values; idle default present or not, its value; "
                           "ALLOW_DUP flags" % nwr,
                  bound="ONE event from ANY state satisfying the mux invariant (inductive; base case asserted)")))
    obs.append(Obligation(
        name="M_cpu_init", harness="C06/mux_cpu.c", defines=["NSTEPS=1", "NWR=%d" % nwr],
        incdirs=UT, native_cflags=NATIVE, unwind=18, extra=OBJ, timeout=600,
        desc=dict(cpu_common,
                  symbolic="first event after construction: any sequence of <=%d distinct writes, symbolic values, default or not" % nwr,
                  bound="1 event from the state the real constructors leave")))

    # ------------------------------------------------------------------ W: wiring of every model
    for name, nch, modes, defs in MODELS:
        obs.append(Obligation(
            name="W_%s" % name, harness="C06/wiring.c",
            defines=["MODEL=%s" % name, 'MODEL_SETUP="src/emu/%s/setup.c"' % name, "EXP_NCH=%d" % nch,
                     "EXP_TH_MODES={%s}" % ",".join(str(m) for m in modes)] + defs,
            incdirs=UT, native_cflags=NATIVE, unwind=130, extra=OBJ, timeout=900,
            desc=dict(
                functions=["model_%s_connect" % name, "th_track/cpu_track/th_spec/cpu_spec of src/emu/%s/setup.c" % name,
                           "model_thread_create", "model_thread_connect", "model_cpu_create", "model_cpu_connect", "connect_cpu",
                           "model_pvt_connect_thread", "model_pvt_connect_cpu", "track_init", "track_connect_thread",
                           "track_set_select", "track_set_input", "mux_init", "mux_set_input", "mux_set_default",
                           "cpu_get_th_chan", "extend_set", "extend_get", "chan_init"],
                symbolic="none (the wiring of a fixed system is deterministic); 2 threads x 2 CPUs x %d channels" % nch,
                bound="system with 2 threads and 2 CPUs",
                out="breakdown muxes of nOS-V/Nanos6 (C20); ovni mark channels (C17); PCF labels/values (C13); systems with "
                    "other thread/CPU counts (the loops are the same)",
                oracle="per thread channel: mode == pinned table %s; ANY -> PRV row fed by the channel itself; RUN/ACT -> by a mux "
                       "with select = that thread's STATE channel, select function of the mode, single input = the channel; per "
                       "CPU channel: mode RUN, select = that CPU's th_running channel, input[gindex t] = channel of thread t, "
                       "default null (ST_RESTING on the idle channel of nOS-V/Nanos6); cb_select enabled / cb_input disabled; "
                       "exactly one PRV row per view; no other callback" % modes,
                assumptions=COMMON + ["recorder bay and recorder prv_register/pcf stubs (harness/C06/wiring.c)",
                                      "uthash list model (stubs/uthash_model)"])))
    # ---- the select channel of every CPU mux: cpu.th_running must name the unique running thread and be null
    # when none or SEVERAL threads run (virtual CPUs may be oversubscribed).  These are C05's thread-event
    # obligations for the configurations where both threads share a CPU, re-run under this property: a seeded
    # change made th_running name the last running thread of an oversubscribed vCPU; the mux obligations
    # above start from a correct th_running and cannot see that.
    from checks import C05 as _c05
    for ob in _c05.obligations(tier, sc):
        if ob.info_only or not ob.name.startswith("stepH_"):
            continue
        if "th0-vcpu_th1-vcpu" in ob.name or "th0-cpu0_th1-cpu0" in ob.name:
            ob.name = "select_channel_th_running_" + ob.name
            obs.append(ob)
    return obs
