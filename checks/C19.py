from vp.core import Obligation

LEVEL_TEXT = "C19: memory safety + cursor progress of the tools' parsing units on arbitrary bytes."

def obligations(tier, sc):
    obs = []
    mx, steps = (48, 4) if tier == "quick" else (64, 5)
    obs.append(Obligation(
        name="stream_arbitrary_bytes", harness="C19/stream.c",
        defines=["MAXSZ=%d" % mx, "NSTEPS=%d" % steps],
        srcs=["src/rt/ovni.c", "src/emu/path.c", "src/parson.c"],
        unwind=mx + 2, timeout=900,
        desc=dict(functions=["load_obs", "load_stream_fd", "check_stream_header", "stream_step", "stream_evclock",
                             "ovni_ev_size", "ovni_payload_size"],
                  symbolic="file size 0..%d, every byte of the file, clock offset, unsorted flag" % mx,
                  bound="stream.obs of <=%d bytes, <=%d stream_step calls" % (mx, steps),
                  out="files longer than the bound; mmap/fstat failures",
                  oracle="independent tiler: accepted iff header ok; step result vs reference; all accesses inside the exact-size object; cursor strictly advances",
                  assumptions=["open/fstat/mmap/close stubs return the harness' exact-size object"])))
    return obs
