"""C19 - tools are total: any trace bytes give a clean exit, never a crash or hang."""
import os
import re
import subprocess
import sys

from vp import core
from vp.core import Obligation

LEVEL_TEXT = "C19: memory safety + cursor progress of the tools' parsing units on arbitrary bytes."

UTHASH = ["stubs/uthash_model"]
NATIVE_GC = ["-ffunction-sections", "-fdata-sections", "-Wl,--gc-sections", "-Wl,--unresolved-symbols=ignore-all", "-no-pie"]

# Confirmed defects of the tree (reported, /repo untouched): their signature is excluded from the main
# queries with -DKF_<name>; run with C19_NO_KF=1 to see the unguarded verdicts.
NO_KF = bool(os.environ.get("C19_NO_KF"))


def kf(*names):
    return [] if NO_KF else list(names)


MODELS = ["ovni", "nosv", "nanos6", "nodes", "mpi", "tampi", "openmp", "kernel"]
TYPES = {"u8": 1, "u16": 2, "u32": 4, "u64": 8, "i8": 1, "i16": 2, "i32": 4, "i64": 8, "str": 0}


# same strings as synth_list[] in harness/C19/evspec.c
SYNTH_DECLS = [("XAa(u8 a, i8 b, u16 c, i16 d, u32 e, i32 f)", "a=%{a} b=%{b} c=%{c} d=%{d} e=%{e} f=%{f}"),
               ("XAb(u64 g, i64 h)", "g=%{g} h=%{h} 100%%"),
               ("XAc+(u32 id, u16 k, str s)", "id=%{id} k=%{k} s='%{s}'"),
               ("XAd(u16 x)", "only %5u{x} and %#x{x}")]


class EvlistError(Exception):
    pass


def dump_evlist(sc, m):
    """The model's REAL declaration list, read by a native program that includes src/emu/<m>/setup.c through the
    shared handler environment: [(signature, description)] in evlist order."""
    src = os.path.join(sc.dir, "c19_evlist_%s.c" % m)
    exe = os.path.join(sc.dir, "c19_evlist_%s.exe" % m)
    open(src, "w").write('#define ENV_NO_EVENTC\n#include "C08/model_env.h"\n#include <stdio.h>\n'
                         'int main(void) {\n'
                         '\tfor (struct ev_decl *d = M_SPEC.evlist; d->signature; d++)\n'
                         '\t\tprintf("%s\\t%s\\n", d->signature, d->description);\n'
                         '\treturn 0;\n}\n')
    ob = Obligation(name="dump", harness="", incdirs=UTHASH)
    cmd = ["gcc", "-std=gnu11", "-O0", "-w", "-DREPLAY", "-DM_%s" % m] + core.include_flags(sc.gen, ob) + NATIVE_GC + [src, "-o", exe, "-lm"]
    p = subprocess.run(cmd, capture_output=True, text=True, timeout=300)
    if p.returncode != 0:
        raise EvlistError("native build of the evlist dumper for %s failed:\n%s" % (m, p.stderr[-3000:]))
    p = subprocess.run([exe], capture_output=True, text=True, timeout=60)
    if p.returncode != 0:
        raise EvlistError("evlist dumper for %s failed" % m)
    return [tuple(l.split("\t", 1)) for l in p.stdout.splitlines() if l.strip()]


def ref_decl(sig, desc):
    """Independent reference reading of a declaration (doc/dev/... signature syntax `MCV[+][(type name, ...)]`, description
    with %fmt{name} regions).  Returns dict(mcv, jumbo, psize, stroff, need, shape): psize = declared payload size (4 for the
    jumbo size word + fixed-width arguments), stroff = offset of a trailing str argument or -1, need = number of payload
    bytes the description's argument references cover (what a decoder has to read)."""
    m = re.match(r"^(...)(\+?)(?:\((.*)\))?$", sig, re.S)
    if not m:
        raise EvlistError("unparsable signature %r" % sig)
    mcv, plus, args = m.group(1), m.group(2), m.group(3)
    jumbo = plus == "+"
    off = 4 if jumbo else 0
    table = {}
    types = []
    stroff = -1
    if args is not None:
        for a in args.split(","):
            parts = a.split()
            if len(parts) != 2 or parts[0] not in TYPES:
                raise EvlistError("unparsable argument %r in %r" % (a, sig))
            table[parts[1]] = (off, TYPES[parts[0]], parts[0])
            types.append(parts[0])
            if parts[0] == "str":
                stroff = off
            off += TYPES[parts[0]]
    refs = re.findall(r"%(?!%)([^{%]*)\{([A-Za-z0-9]+)\}", desc.replace("%%", ""))
    need = 0
    strref = 0
    fmts = []
    for fmt, name in refs:
        if name not in table:
            raise EvlistError("description of %r names an unknown argument %r" % (sig, name))
        o, sz, t = table[name]
        need = max(need, o + sz)
        fmts.append(fmt)
        if t == "str":
            strref = 1
    return dict(mcv=mcv, jumbo=int(jumbo), psize=off if args is not None else 0, stroff=stroff if strref else -1, need=need,
                nrefs=len(refs), shape=(jumbo, tuple(types), tuple(fmts)))


def obligations(tier, sc):
    obs = []
    mx, steps = (48, 4) if tier == "quick" else (64, 5)
    obs.append(Obligation(
        name="stream_arbitrary_bytes", harness="C19/stream.c",
        defines=["MAXSZ=%d" % mx, "NSTEPS=%d" % steps],
        srcs=["src/rt/ovni.c", "src/emu/path.c", "src/parson.c"],
        unwind=mx + 2, timeout=900,
        desc=dict(functions=["load_obs", "load_stream_fd", "check_stream_header", "stream_step", "stream_evclock",
                             "ovni_ev_size", "ovni_payload_size"],
                  symbolic="file size 0..%d, every byte of the file, clock offset, unsorted flag" % mx,
                  bound="stream.obs of <=%d bytes, <=%d stream_step calls" % (mx, steps),
                  out="files longer than the bound; mmap/fstat failures",
                  oracle="independent tiler: accepted iff header ok; step result vs reference; all accesses inside the exact-size object; cursor strictly advances",
                  assumptions=["open/fstat/mmap/close stubs return the harness' exact-size object"])))

    # ---- (1) payload-touching handlers through the real emu_ev()
    for m in ("ovni", "nosv", "nanos6"):
        guards = kf("KF_OHC_DEBUG") if m == "ovni" else kf("KF_D5_PRETYPE")
        for slack in (0, 16):
            obs.append(Obligation(
                name="H_payload_%s_%s" % (m, "endaligned" if slack == 0 else "slack"), harness="C19/handler.c",
                defines=["M_%s" % m, "SLACK=%d" % slack] + guards,
                srcs=["src/rt/ovni.c"], incdirs=UTHASH, unwind=40, timeout=900, native_cflags=NATIVE_GC,
                desc=dict(functions=["emu_ev", "ovni_payload_size", "model_%s_event and everything below it (src/emu/%s/event.c)" % (m, m)],
                          symbolic="", bound="", out="", oracle="", assumptions=[])))

    # ---- (3) ovnisort on arbitrary bytes
    sort_srcs = ["src/rt/ovni.c", "src/emu/stream.c", "src/emu/path.c", "src/parson.c"]

    def sort_unwindset(k):
        return ["%s.%d:%d" % (f, i, k) for f in ("find_min_clock", "count_events", "index_events", "write_events", "rebuild_ring", "ring_check",
                                                 "find_destination", "stream_winsort", "write_stream", "stream_check", "execute_sort_plan", "sort_buf")
                for i in (0, 1, 2)]

    def sort_ob(name, mx, defs, **kw):
        return Obligation(name=name, harness="C19/sort.c", defines=["MAXSZ=%d" % mx] + defs, srcs=sort_srcs,
                          unwind=mx + 2, unwindset=sort_unwindset(mx // 12 + 2), timeout=1500, native_cflags=NATIVE_GC,
                          desc=dict(functions=[], symbolic="", bound="", out="", oracle="", assumptions=[]), **kw)

    # one sort plan from the state stream_winsort() is in at a closing marker: (first region event, closing marker, look-back size)
    plans = [(40, 1, 2, 6), (48, 1, 3, 6), (48, 2, 3, 2)] if tier == "quick" else \
            [(48, 1, 2, 6), (48, 1, 3, 6), (48, 2, 3, 2), (48, 2, 3, 6), (48, 1, 3, 2), (56, 1, 3, 6), (56, 2, 3, 3)]
    for mx, a, b, rs in plans:
        wit = (["W_SORTED"] if rs >= b + 2 else []) + (["W_CANNOT"] if rs <= 2 else [])
        obs.append(sort_ob("S_sortplan_%d_a%d_b%d_r%d" % (mx, a, b, rs), mx,
                           ["PLANMODE", "PA=%d" % a, "PB=%d" % b, "RSIZE=%d" % rs] + wit + kf("KF_SORT_CLOCK63")))
    obs.append(sort_ob("S_ovnisort_check", 48 if tier == "quick" else 64, ["CHECKMODE"]))
    if tier == "thorough":
        obs.append(sort_ob("S_ovnisort_winsort", 36, kf("KF_SORT_CLOCK63")))

    # ---- (4)+(5) the tools' own files: main() exit status, ovnidump emit (hex dump), ovnitop accum/report
    for tool, extra_defs, info in (("dump", ["JMAX=16"], False), ("top", [], False), ("sort", [], False), ("dump", ["REGISTER_MAY_FAIL"], True)):
        obs.append(Obligation(
            name="M_main_ovni%s%s" % (tool, "_register_fails" if info else ""), harness="C19/mains.c", defines=["TOOL_%s" % tool] + extra_defs,
            srcs=["src/rt/ovni.c"], incdirs=UTHASH, unwind=34, timeout=900, native_cflags=NATIVE_GC, info_only=info,
            unwindset=(["stream_winsort.0:2", "stream_winsort.1:2", "stream_winsort.2:2", "stream_check.0:2", "process_trace.0:3"] if tool == "sort" else []), witness=not info,
            desc=dict(functions=[], symbolic="", bound="", out="", oracle="", assumptions=[])))

    # ---- (2) ovnidump's decoder on an arbitrary event carrying a listed code
    try:
        evl = {m: [ref_decl(sg, d) for sg, d in dump_evlist(sc, m)] for m in MODELS}
    except EvlistError as ex:
        print("INCONCLUSIVE: cannot read the declaration lists from the working tree: %s" % ex, flush=True)
        sc.cleanup()
        sys.exit(2)

    def evspec_ob(name, m, idx, decls, extra_defs=()):
        wd = []
        if any(d["nrefs"] and d["stroff"] < 0 for d in decls):
            wd.append("W_ARGS")
        if any(d["stroff"] >= 0 for d in decls):
            wd.append("W_STR")
        if any(d["nrefs"] == 0 for d in decls):
            wd.append("W_NOARG")
        lst = lambda key: ",".join(str(d[key]) for d in decls)
        return Obligation(
            name=name, harness="C19/evspec.c",
            defines=["M_%s" % m, "EV_IDX=" + ",".join(str(i) for i in idx), "EV_PSIZE=" + lst("psize"), "EV_NEED=" + lst("need"),
                     "EV_JUMBO=" + lst("jumbo"), "EV_STROFF=" + lst("stroff")] + wd + list(extra_defs) + kf("KF_D5_EVSPEC"),
            srcs=["src/rt/ovni.c"], incdirs=UTHASH, unwind=300, timeout=1500, native_cflags=NATIVE_GC,
            extra=["--object-bits", "12", "--max-field-sensitivity-array-size", "256"],
            desc=dict(functions=["ev_spec_compile", "parse_signature", "parse_args", "parse_arg", "parse_type", "emu_ev", "ovni_payload_size",
                                 "ev_spec_print", "format_region", "parse_printf_format", "parse_arg_name", "ev_spec_find_arg", "print_arg"],
                      symbolic="", bound="", out="", oracle="", assumptions=[]))

    for m in MODELS:
        decls = evl[m]
        if tier == "quick":
            seen, idx = set(), []
            for i, d in enumerate(decls):
                if d["shape"] not in seen:
                    seen.add(d["shape"])
                    idx.append(i)
            obs.append(evspec_ob("E_evspec_%s" % m, m, idx, [decls[i] for i in idx]))
        else:
            per = 12
            for lo in range(0, len(decls), per):
                idx = list(range(lo, min(lo + per, len(decls))))
                obs.append(evspec_ob("E_evspec_%s_%03d_%03d" % (m, idx[0], idx[-1]), m, idx, [decls[i] for i in idx]))
    # every argument type + the decoder's room bookkeeping (synthetic declarations, see harness)
    synth = [ref_decl(sg, d) for sg, d in SYNTH_DECLS]
    obs.append(evspec_ob("E_evspec_synth_all_types", "kernel", list(range(len(synth))), synth, ["SYNTH"]))
    obs.append(evspec_ob("E_evspec_synth_smallbuf", "kernel", [3], [synth[3]], ["SYNTH", "SMALLBUF=24", "NUMLEN_MAX=6"]))
    return obs
