"""C19 - tools are total: any trace bytes give a clean exit, never a crash or hang."""
import os
import re
import subprocess
import sys

from vp import core
from vp.core import Obligation

LEVEL_TEXT = ("C19: memory safety (CBMC pointer/bounds checks on the real code), absence of die()/abort, termination by strict cursor progress "
              "and exit status 0/1 of the units through which ovniemu, ovnidump, ovnitop and ovnisort consume stream.obs / stream.json "
              "bytes, for ALL byte values inside small size bounds.")

MANIFEST = dict(
    level_text=LEVEL_TEXT,
    level_note=("Decomposed per unit, not one whole-program query: (a) load_obs/stream_step on every file of <=48 (64) bytes; (b) the real "
                "emu_ev() + every handler that reads payload bytes (ovni, nosv, nanos6) on one arbitrary in-bounds event END-ALIGNED in a heap "
                "object, with an independent decode of the event as second oracle; (c) ev_spec_compile + ev_spec_print on an arbitrary event "
                "carrying a listed code, for one declaration per argument shape of each of the 8 models (all declarations in the thorough tier) "
                "+ synthetic declarations for every argument type + all buffer lengths 0..24; (d) ovnisort: one execute_sort_plan from the state "
                "stream_winsort is in at a closing marker, on <=48 (56) arbitrary bytes walked by the real stream_step, stream_check on <=48 (64) "
                "bytes, whole stream_winsort on <=36 bytes (thorough); (e) main() of ovnidump/ovnitop/ovnisort with the library as symbolic-return "
                "stubs (exit status 0/1, hex dump, ovnitop table); (f) ovni.mark metadata of arbitrary JSON types. Four defects found by this check were fixed in "
                "the tree (pre_type of nosv/nanos6 read past a short jumbo payload: d22f79a; ovnidump decoded arguments without checking the payload "
                "size, NULL payload SIGSEGV: 8de98ba; ovnisort aborted on clocks >= 2^63 inside a sort region: 4c9aab9; ovniemu -d dereferenced the "
                "NULL payload of OHC: 1e8d2f1); their signature guards (-DKF_*) are off unless C19_KF=1. Outside: parson on JSON text, file-system errors, whole-program hangs beyond the "
                "cursor argument, event handlers of the table-driven models (they never read payload bytes; C18), emulation work per event."),
    technique=("CBMC 6.11 bounded symbolic execution of src/emu/{stream,emu_ev,ev_spec,ovnidump,ovnitop,ovnisort}.c, src/emu/{ovni,nosv,nanos6}/event.c, "
               "src/emu/ovni/mark.c, src/rt/ovni.c; data END-ALIGNED in fixed-size heap objects so that CBMC's pointer checks are the over-read oracle; "
               "unwinding assertions as termination proof; counterexamples replayed natively under ASan/UBSan"))

UTHASH = ["stubs/uthash_model"]
NATIVE_GC = ["-ffunction-sections", "-fdata-sections", "-Wl,--gc-sections", "-Wl,--unresolved-symbols=ignore-all", "-no-pie"]

# The four defects this check found (pre_type short jumbo, ev_spec_print without payload check, ovnisort signed clock
# compare, OHC debug NULL payload) were fixed in /repo (d22f79a, 8de98ba, 4c9aab9, 1e8d2f1): the guards that excluded their
# signatures (-DKF_<name>) are OFF by default; C19_KF=1 turns them on again (to look past a regression).
NO_KF = not os.environ.get("C19_KF")


def kf(*names):
    return [] if NO_KF else list(names)


MODELS = ["ovni", "nosv", "nanos6", "nodes", "mpi", "tampi", "openmp", "kernel"]
TYPES = {"u8": 1, "u16": 2, "u32": 4, "u64": 8, "i8": 1, "i16": 2, "i32": 4, "i64": 8, "str": 0}


# same strings as synth_list[] in harness/C19/evspec.c
SYNTH_DECLS = [("XAa(u8 a, i8 b, u16 c, i16 d, u32 e, i32 f)", "a=%{a} b=%{b} c=%{c} d=%{d} e=%{e} f=%{f}"),
               ("XAb(u64 g, i64 h)", "g=%{g} h=%{h} 100%%"),
               ("XAc+(u32 id, u16 k, str s)", "id=%{id} k=%{k} s='%{s}'"),
               ("XAd(u16 x)", "only %5u{x} and %#x{x}.")]


class EvlistError(Exception):
    pass


def dump_evlist(sc, m):
    """The model's REAL declaration list, read by a native program that includes src/emu/<m>/setup.c through the
    shared handler environment: [(signature, description)] in evlist order."""
    src = os.path.join(sc.dir, "c19_evlist_%s.c" % m)
    exe = os.path.join(sc.dir, "c19_evlist_%s.exe" % m)
    open(src, "w").write('#define ENV_NO_EVENTC\n#include "C08/model_env.h"\n#include <stdio.h>\n'
                         'int main(void) {\n'
                         '\tfor (struct ev_decl *d = M_SPEC.evlist; d->signature; d++)\n'
                         '\t\tprintf("%s\\t%s\\n", d->signature, d->description);\n'
                         '\treturn 0;\n}\n')
    ob = Obligation(name="dump", harness="", incdirs=UTHASH)
    cmd = ["gcc", "-std=gnu11", "-O0", "-w", "-DREPLAY", "-DM_%s" % m] + core.include_flags(sc.gen, ob) + NATIVE_GC + [src, "-o", exe, "-lm"]
    p = subprocess.run(cmd, capture_output=True, text=True, timeout=300)
    if p.returncode != 0:
        raise EvlistError("native build of the evlist dumper for %s failed:\n%s" % (m, p.stderr[-3000:]))
    p = subprocess.run([exe], capture_output=True, text=True, timeout=60)
    if p.returncode != 0:
        raise EvlistError("evlist dumper for %s failed" % m)
    return [tuple(l.split("\t", 1)) for l in p.stdout.splitlines() if l.strip()]


def ref_decl(sig, desc):
    """Independent reference reading of a declaration (doc/dev/... signature syntax `MCV[+][(type name, ...)]`, description
    with %fmt{name} regions).  Returns dict(mcv, jumbo, psize, stroff, need, shape): psize = declared payload size (4 for the
    jumbo size word + fixed-width arguments), stroff = offset of a trailing str argument or -1, need = number of payload
    bytes the description's argument references cover (what a decoder has to read)."""
    m = re.match(r"^(...)(\+?)(?:\((.*)\))?$", sig, re.S)
    if not m:
        raise EvlistError("unparsable signature %r" % sig)
    mcv, plus, args = m.group(1), m.group(2), m.group(3)
    jumbo = plus == "+"
    off = 4 if jumbo else 0
    table = {}
    types = []
    stroff = -1
    if args is not None:
        for a in args.split(","):
            parts = a.split()
            if len(parts) != 2 or parts[0] not in TYPES:
                raise EvlistError("unparsable argument %r in %r" % (a, sig))
            table[parts[1]] = (off, TYPES[parts[0]], parts[0])
            types.append(parts[0])
            if parts[0] == "str":
                stroff = off
            off += TYPES[parts[0]]
    refs = re.findall(r"%(?!%)([^{%]*)\{([A-Za-z0-9]+)\}", desc.replace("%%", ""))
    need = 0
    strref = 0
    fmts = []
    for fmt, name in refs:
        if name not in table:
            raise EvlistError("description of %r names an unknown argument %r" % (sig, name))
        o, sz, t = table[name]
        need = max(need, o + sz)
        fmts.append(fmt)
        if t == "str":
            strref = 1
    return dict(mcv=mcv, jumbo=int(jumbo), psize=off if args is not None else 0, stroff=stroff if strref else -1, need=need,
                nrefs=len(refs), shape=(jumbo, tuple(types), tuple(fmts)))


def sort_unwindset(k):
    return ["%s.%d:%d" % (f, i, k) for f in ("find_min_clock", "count_events", "index_events", "write_events", "rebuild_ring", "ring_check",
                                             "find_destination", "stream_winsort", "write_stream", "stream_check", "execute_sort_plan", "sort_buf")
            for i in (0, 1, 2)]


def obligations(tier, sc):
    obs = []
    mx, steps = (48, 4) if tier == "quick" else (64, 5)
    obs.append(Obligation(
        name="stream_arbitrary_bytes", harness="C19/stream.c",
        defines=["MAXSZ=%d" % mx, "NSTEPS=%d" % steps],
        srcs=["src/rt/ovni.c", "src/emu/path.c", "src/parson.c"],
        unwind=mx + 2, timeout=900,
        desc=dict(functions=["load_obs", "load_stream_fd", "check_stream_header", "stream_step", "stream_evclock",
                             "ovni_ev_size", "ovni_payload_size"],
                  symbolic="file size 0..%d, every byte of the file, clock offset, unsorted flag" % mx,
                  bound="stream.obs of <=%d bytes, <=%d stream_step calls" % (mx, steps),
                  out="files longer than the bound; mmap/fstat failures",
                  oracle="independent tiler: accepted iff header ok; step result vs reference; all accesses inside the exact-size object; cursor strictly advances",
                  assumptions=["open/fstat/mmap/close stubs return the harness' exact-size object"])))

    obs.append(Obligation(
        name="N_next_ev_size_any_length", harness="C19/evsize.c", srcs=["src/rt/ovni.c", "src/emu/path.c", "src/parson.c"], unwind=30, timeout=600,
        desc=dict(functions=["next_ev_size (src/emu/stream.c)", "ovni_ev_size", "ovni_payload_size", "get_jumbo_payload_size (src/rt/ovni.c)"],
                  symbolic="ghost stream length up to 2^62 bytes, the 16 bytes of event header + jumbo size word (all values, incl. sizes >= 2^31)",
                  bound="one event at the start of a stream of any length except 16..27 remaining bytes (covered by the <=64-byte queries); only min(avail, 28) bytes are backed by memory (END-ALIGNED)",
                  out="the bytes of the payload itself (never looked at by the size computation)",
                  oracle="independent reference length L: accepted iff L fits in the stream and L <= INT_MAX; accepted => ovni_ev_size() == L > 0 (strict cursor progress, no "
                         "stall or backward step for jumbo sizes >= 2^31); no read outside the bytes that exist",
                  assumptions=[])))
    tmx, tsteps = (40, 3) if tier == "quick" else (56, 4)
    # Twin of the obligation above in which CBMC's whole-union lvalue strictness cannot fire: no jumbo-flagged byte has 4..15 bytes
    # behind its would-be header, so `ev->payload.jumbo.size` is either fully backed (>= 16 bytes) or a REAL over-read (< 4 bytes).
    # Without it a real over-read at that line can hide behind a benign counterexample of the same CBMC property (seen in the kill test).
    obs.append(Obligation(
        name="stream_truncated_jumbo_tail", harness="C19/stream.c",
        defines=["MAXSZ=%d" % tmx, "NSTEPS=%d" % tsteps, "NO_PARTIAL_JUMBO"],
        srcs=["src/rt/ovni.c", "src/emu/path.c", "src/parson.c"],
        unwind=tmx + 2, timeout=900,
        desc=dict(functions=["load_obs", "check_stream_header", "stream_step", "next_ev_size", "ovni_ev_size", "ovni_payload_size", "get_jumbo_payload_size"],
                  symbolic="file size 0..%d, every byte of the file, clock offset, unsorted flag" % tmx,
                  bound="stream.obs of <=%d bytes, <=%d stream_step calls; no byte with the jumbo bit set at an offset that leaves 4..15 bytes behind a 12-byte header" % (tmx, tsteps),
                  out="the excluded byte patterns (covered by stream_arbitrary_bytes, where CBMC's strictness on partly backed unions is filtered by native replay)",
                  oracle="as stream_arbitrary_bytes; here every CBMC pointer failure on the jumbo size word is a real read past the end of the file",
                  assumptions=["open/fstat/mmap/close stubs return the harness' exact-size object"])))

    # ---- (1) payload-touching handlers through the real emu_ev()
    ENV = ["leaf actions (chan_push/pop/set, task_*, body_*, thread_set_*, cpu_*, loom_get_cpu, proc/loom_find_thread) replaced by recorders that always "
           "succeed and record their arguments (harness/C08/model_env.h); task_type_create's reading of the label is replaced by the oracle "
           "'label is nil-terminated inside the jumbo data'",
           "union chan_data modelled as a struct (harness/C08/model_env.h)"]
    hfun = {"ovni": ["model_ovni_event", "pre_thread (incl. the OHC debug branch)", "pre_thread_execute", "pre_affinity", "pre_affinity_set", "pre_affinity_remote",
                     "pre_cpu", "pre_burst", "pre_flush", "the OU path", "mark_event + find_mark_type (src/emu/ovni/mark.c)"],
            "nosv": ["model_nosv_event", "process_ev", "pre_task", "update_task", "update_task_state", "create_task", "pre_type (src/emu/nosv/event.c)"],
            "nanos6": ["model_nanos6_event", "process_ev", "pre_task", "update_task", "update_task_state", "create_task", "pre_type (src/emu/nanos6/event.c)"]}
    for m in ("ovni", "nosv", "nanos6"):
        guards = kf("KF_OHC_DEBUG") if m == "ovni" else kf("KF_D5_PRETYPE")
        for slack in (0, 16):
            obs.append(Obligation(
                name="H_payload_%s_%s" % (m, "endaligned" if slack == 0 else "slack"), harness="C19/handler.c",
                defines=["M_%s" % m, "SLACK=%d" % slack] + guards,
                srcs=["src/rt/ovni.c"], incdirs=UTHASH, unwind=40, timeout=900, native_cflags=NATIVE_GC,
                desc=dict(functions=["emu_ev (src/emu/emu_ev.c)", "ovni_payload_size (src/rt/ovni.c)"] + hfun[m],
                          symbolic="one event: flags byte (all 8 bits), model byte, %s, clock, payload of the announced length (0 or 2..16 bytes; jumbo: "
                                   "32-bit size 0..8 + data), every payload byte; is_jumbo left in the reused struct emu_ev by the previous event; thread "
                                   "flags and state, debug mode (ovniemu -d), mark type, burst count 0..97, task context%s" % (
                                       "category and value byte (all 65536)" if m == "ovni" else "category 'T' or 'Y', value byte (all 256)",
                                       "; 16 arbitrary bytes BEHIND the event in the same heap object" if slack else ""),
                          bound="one event of <= 28 bytes; jumbo data <= 8 bytes; " + (
                              "event END-ALIGNED in the heap object: a read past its last byte is out of object" if not slack else
                              "16 slack bytes behind the event: CBMC's whole-union lvalue check (`payload->i32[k]` needs all 16 bytes of the union) does not "
                              "fire, so every built-in check below the handler is decided; over-reads are caught by the decode oracle"),
                          out="categories of nosv/nanos6 other than T/Y (table dispatch, no payload read: C18); the 100th burst (statistics over thread state); "
                              "what the leaf actions do with their arguments (C04-C08)",
                          oracle="CBMC pointer checks on the real code; independent little-endian decode of the event from the documented signatures: a "
                                 "leaf action is reached only with arguments that lie inside the payload (short payload => rejected, not read); a task "
                                 "type is created only from a jumbo event whose data holds the id and a nil-terminated label; no die(); return 0 or -1",
                          assumptions=ENV + ([("known finding excluded (-DKF_OHC_DEBUG): debug mode and OHC with fewer than 12 payload bytes" if m == "ovni" else
                                               "known finding excluded (-DKF_D5_PRETYPE): jumbo Yc whose data is shorter than 5 bytes or whose label has no nil inside the data")]
                                             if not NO_KF else []))))

    # ---- (3) ovnisort on arbitrary bytes
    sort_srcs = ["src/rt/ovni.c", "src/emu/stream.c", "src/emu/path.c", "src/parson.c"]
    SORT_ENV = ["open/close/fdatasync succeed; pwrite copies into the mapping (the mapping is the file) and is asserted to stay inside the file and below the closing marker",
                "malloc(n)/calloc(n, 8) of ovnisort.c return END-ALIGNED regions of fixed-size heap objects (requests asserted to be > 0 and <= file size / event count); free is a no-op",
                "qsort: typed stable insertion sort calling the real cmp_ev",
                "struct stream is put in the state load_obs() leaves behind the 8-byte header (header: stream_arbitrary_bytes)"]
    CLK = "every clock, read as int64_t, lies in [-2^62, 2^62) (no signed overflow in stream_step's clock deltas); clocks >= 2^64 - 2^62 unsigned stay in scope"
    sort_fun = ["stream_step", "next_ev_size", "stream_evclock (src/emu/stream.c)", "ovni_ev_size", "ovni_payload_size", "ovni_ev_get_clock (src/rt/ovni.c)"]

    def sort_ob(name, mx, defs, desc, **kw):
        return Obligation(name=name, harness="C19/sort.c", defines=["MAXSZ=%d" % mx] + defs, srcs=sort_srcs,
                          unwind=mx + 2, unwindset=sort_unwindset(mx // 12 + 2), timeout=1500, native_cflags=NATIVE_GC, desc=desc, **kw)

    kf_sort = ["known finding excluded (-DKF_SORT_CLOCK63): an event clock >= 2^63 (cmp_ev compares as int64_t, ring_check/find_destination as uint64_t: die())"] if not NO_KF else []
    # one sort plan from the state stream_winsort() is in at a closing marker: (bytes, first region event, closing marker, look-back size)
    plans = [(40, 1, 2, 6), (48, 1, 3, 6), (48, 2, 3, 2)] if tier == "quick" else \
            [(48, 1, 2, 6), (48, 1, 3, 6), (48, 2, 3, 2), (48, 2, 3, 6), (48, 1, 3, 2), (52, 1, 3, 6), (56, 2, 3, 3)]
    for mx, a, b, rs in plans:
        wit = (["W_SORTED"] if rs >= b + 2 else []) + (["W_CANNOT"] if rs <= 2 else [])
        obs.append(sort_ob("S_sortplan_%d_a%d_b%d_r%d" % (mx, a, b, rs), mx,
                           ["PLANMODE", "PA=%d" % a, "PB=%d" % b, "RSIZE=%d" % rs] + wit + kf("KF_SORT_CLOCK63"),
                           dict(functions=["execute_sort_plan", "find_min_clock", "find_destination", "sort_buf", "count_events", "index_events", "write_events", "cmp_ev",
                                           "write_stream", "rebuild_ring", "ring_check", "ring_add", "ring_reset", "starts/ends_unsorted_region (src/emu/ovnisort.c)"] + sort_fun,
                                symbolic="size 0..%d and every byte of the event area (flags, sizes, jumbo size words, clocks, payloads): event boundaries are symbolic" % mx,
                                bound="<= %d bytes END-ALIGNED in a heap object; events e[0..%d] accepted by the real stream_step, e[%d] = OU[, region e[%d..%d], e[%d] = OU] "
                                      "(the state of stream_winsort at the closing marker); look-back ring of %d slots (END-ALIGNED)" % (mx, b, a - 1, a, b - 1, b, rs),
                                out="regions of more than %d events; the marker state machine of stream_winsort (S_ovnisort_winsort in the thorough tier, C16); short pwrite (C16)" % (b - a),
                                oracle="CBMC pointer checks: every read stays inside [first, next) / the file, every write inside the scratch buffers, the event table and the "
                                       "ring; unwinding assertions: every walk terminates within the number of events that fit (cursor strictly advances, sizes are positive); "
                                       "malloc/calloc requests positive and bounded; no die(); return 0 or -1; file size unchanged",
                                assumptions=SORT_ENV + [CLK] + kf_sort)))
    cmx = 48 if tier == "quick" else 64
    obs.append(sort_ob("S_ovnisort_check", cmx, ["CHECKMODE"],
                       dict(functions=["stream_check (src/emu/ovnisort.c)"] + sort_fun,
                            symbolic="size 0..%d and every byte of the event area" % cmx, bound="<= %d bytes, <= %d events" % (cmx, cmx // 12),
                            out="clocks whose int64_t value is outside [-2^62, 2^62) (stream_step computes clock - lastclock in int64_t: formal signed overflow, no crash)",
                            oracle="CBMC pointer checks; loop terminates within the number of events that fit; return 0 or -1; no die()",
                            assumptions=SORT_ENV[3:] + [CLK])))
    if tier == "thorough":
        obs.append(sort_ob("S_ovnisort_winsort", 36, kf("KF_SORT_CLOCK63"),
                           dict(functions=["stream_winsort and everything below it (src/emu/ovnisort.c)"] + sort_fun,
                                symbolic="size 0..36 and every byte of the event area, look-back size 1..6", bound="<= 36 bytes (3 events)",
                                out="longer streams (do not finish: three inlined sort plans with symbolic event boundaries)",
                                oracle="as S_sortplan, plus the marker state machine; cursor ends inside the stream",
                                assumptions=SORT_ENV + [CLK] + kf_sort)))

    # ---- (4)+(5) the tools' own files: main() exit status, ovnidump emit (hex dump), ovnitop accum/report
    mfun = {"dump": ["main", "parse_args", "usage", "emit (src/emu/ovnidump.c)", "emu_ev"],
            "top": ["main", "parse_args", "usage", "accum", "by_count", "report (src/emu/ovnitop.c)", "emu_ev"],
            "sort": ["main", "parse_args", "usage", "process_trace", "stream_winsort / stream_check loop skeleton (src/emu/ovnisort.c)"]}
    for tool, extra_defs, info in (("dump", ["JMAX=16"], False), ("top", [], False), ("sort", [], False), ("dump", ["REGISTER_MAY_FAIL"], True)):
        obs.append(Obligation(
            name="M_main_ovni%s%s" % (tool, "_register_fails" if info else ""), harness="C19/mains.c", defines=["TOOL_%s" % tool] + extra_defs,
            srcs=["src/rt/ovni.c"], incdirs=UTHASH, unwind=34, timeout=900, native_cflags=NATIVE_GC, info_only=info,
            unwindset=(sort_unwindset(2) + ["process_trace.0:3"] if tool == "sort" else []), witness=not info,
            desc=dict(functions=mfun[tool],
                      symbolic="getopt results (<= 2 options, known or unknown), directory argument present or not, results of trace_load / player_init "
                               "(0 or -1), of <= 2 player_step calls (-1, 0, +1), of model_event_print; each stepped event: arbitrary in-bounds bytes "
                               "(flags, code, clock, payload 0..16 bytes, jumbo data 0..%d) through the real emu_ev" % (16 if tool == "dump" else 8),
                      bound="<= 2 options, <= 2 events", out="ovnisort -n (sizes a malloc from the command line); the library below main (other obligations / properties)",
                      oracle=("informational: with models_register() failing ovnidump returns -1 (exit status 255)" if info else
                              "main returns 0 or 1, exit() only with 0 or 1, status 1 only after a diagnostic; CBMC pointer checks (hex dump reads "
                              "[payload, payload+size); ovnitop entries hold 3 code bytes + nil); ovnitop counts every event exactly once and frees its table; no die()"),
                      assumptions=["library calls below main are stubs with symbolic results (see harness header)", "uthash list model (ovnitop)"] +
                                  (["models_register() succeeds (static model list; failure is not reachable from trace bytes)"] if tool == "dump" and not info else []))))

    # ---- (6) metadata of arbitrary types
    # (entries, labels, type-key spellings, label-key spellings, chan_type texts): see harness/C19/meta_mark.c
    mark_cfgs = [(2, 2, (0, 1), (0, 1), (0, 1)), (2, 2, (0, 6), (0, 3), (1, 2)), (2, 2, (3, 5), (2, 4), (0, 0)), (1, 0, (4, 0), (0, 1), (1, 0))]
    if tier == "thorough":
        mark_cfgs += [(2, 2, (4, 2), (1, 0), (1, 0)), (2, 1, (7, 0), (4, 0), (2, 1)), (0, 0, (0, 1), (0, 1), (0, 1))]
    for n, (ne, nl, ek, vk, ct) in enumerate(mark_cfgs):
        obs.append(Obligation(
            name="J_meta_mark_types_%d" % n, harness="C19/meta_mark.c",
            defines=["NENT=%d" % ne, "NLAB=%d" % nl, "EK0=%d" % ek[0], "EK1=%d" % ek[1], "VK0=%d" % vk[0], "VK1=%d" % vk[1], "CT0=%d" % ct[0], "CT1=%d" % ct[1]] +
                    (["W_ACCEPT2"] if n == 0 else []) + (["W_ENTRY"] if ne > 0 else []) + (["W_LABELS"] if ne > 0 and nl > 0 else []),
            incdirs=UTHASH, unwind=26, timeout=900, native_cflags=NATIVE_GC,
            desc=dict(functions=["scan_thread", "parse_mark", "parse_labels", "parse_number", "add_label", "find_label", "create_mark_type", "find_mark_type (src/emu/ovni/mark.c)"],
                      symbolic="presence and JSON type (object/array/number/string/boolean/null) of ovni.mark, of each mark entry, of its title / chan_type / labels and of each label value",
                      bound="%d mark entries with %d labels each; spellings fixed per query: type keys %s, label keys %s, chan_type texts %s (indices into the tables of the harness: "
                            "valid, out of range, negative, leading blank, non-number, overflowing, empty)" % (ne, nl, ek, vk, ct),
                      out="parson on JSON text; more entries; duplicate keys; loom/proc/thread attributes of arbitrary types are C15's ILL obligations",
                      oracle="CBMC pointer checks; no die(); scan_thread returns 0 or -1, and 0 only if every present entry is well formed (independent reading of doc/user/runtime/mark.md)",
                      assumptions=["parson getters replaced by the ghost document model stubs/vjson.h", "uthash list model", "strtol/strtoll/snprintf: stubs/libc_model.h"])))

    # ---- (2) ovnidump's decoder on an arbitrary event carrying a listed code
    try:
        evl = {m: [ref_decl(sg, d) for sg, d in dump_evlist(sc, m)] for m in MODELS}
    except EvlistError as ex:
        print("INCONCLUSIVE: cannot read the declaration lists from the working tree: %s" % ex, flush=True)
        sc.cleanup()
        sys.exit(2)

    def evspec_ob(name, m, idx, decls, extra_defs=(), what=None):
        wd = []
        if any(d["nrefs"] and d["stroff"] < 0 for d in decls):
            wd.append("W_ARGS")
        if any(d["stroff"] >= 0 for d in decls):
            wd.append("W_STR")
        if any(d["nrefs"] == 0 for d in decls):
            wd.append("W_NOARG")
        lst = lambda key: ",".join(str(d[key]) for d in decls)
        small = any(x.startswith("SMALLBUF") for x in extra_defs)
        return Obligation(
            name=name, harness="C19/evspec.c",
            defines=["M_%s" % m, "EV_IDX=" + ",".join(str(i) for i in idx), "EV_PSIZE=" + lst("psize"), "EV_NEED=" + lst("need"),
                     "EV_JUMBO=" + lst("jumbo"), "EV_STROFF=" + lst("stroff")] + wd + list(extra_defs) + kf("KF_D5_EVSPEC"),
            srcs=["src/rt/ovni.c"], incdirs=UTHASH, unwind=300, timeout=1500, native_cflags=NATIVE_GC,
            extra=["--object-bits", "12", "--max-field-sensitivity-array-size", "256"],
            desc=dict(functions=["model_event_print", "check_payload (src/emu/model.c)", "ev_spec_compile", "parse_signature", "parse_args", "parse_arg", "parse_type", "ev_spec_print", "format_region",
                                 "parse_printf_format", "parse_arg_name", "ev_spec_find_arg", "print_arg (src/emu/ev_spec.c)", "emu_ev", "ovni_payload_size"],
                      symbolic="declaration selector; one event with the code of the declaration: flags byte (all 8 bits), clock, payload of the announced length (0 or 2..16 bytes; "
                               "jumbo: size 0..8 + data), every byte" + ("; buffer length 0..24 and length 1..6 of every formatted number (all pairs, case split)" if small else ""),
                      bound=what or ("declarations %s of the real evlist of model %s (%s)" % (idx, m, "one per argument shape" if tier == "quick" else "slice of all")),
                      out="the lookup by MCV (model_evspec_find is a ghost returning the compiled declaration: C18 E_evspec_init); number formatting by libc (any length 1 is assumed for a number, except in the smallbuf query); "
                          "declarations whose argument types/formats differ from the visited ones (quick tier)",
                      oracle="CBMC pointer checks with the event END-ALIGNED in a heap object (print_arg reads through a byte pointer: byte-exact) and payload == NULL for "
                             "an event without payload; snprintf shadow asserts its window lies inside the caller's buffer and walks a %s argument to its nil; on success "
                             "the text is nil-terminated inside the buffer, the payload covers the arguments the description prints and a string is nil-terminated inside "
                             "the payload; return 0 or -1" + ("; canaries around the caller's buffer untouched" if small else ""),
                      assumptions=["reference parse of the signature/description in Python (checks/C19.py) gives the declared payload size and string offset",
                                   "strtok_r/isgraph/isalnum: stubs/libc_model.h"] +
                                  (["known finding excluded (-DKF_D5_EVSPEC): declared arguments and (payload shorter than the declared size or string without nil inside the payload)"] if not NO_KF else [])))

    for m in MODELS:
        decls = evl[m]
        if tier == "quick":
            seen, idx = set(), []
            for i, d in enumerate(decls):
                if d["shape"] not in seen:
                    seen.add(d["shape"])
                    idx.append(i)
            obs.append(evspec_ob("E_evspec_%s" % m, m, idx, [decls[i] for i in idx]))
        else:
            per = 12
            for lo in range(0, len(decls), per):
                idx = list(range(lo, min(lo + per, len(decls))))
                obs.append(evspec_ob("E_evspec_%s_%03d_%03d" % (m, idx[0], idx[-1]), m, idx, [decls[i] for i in idx]))
    # every argument type + the decoder's room bookkeeping (synthetic declarations, see harness)
    synth = [ref_decl(sg, d) for sg, d in SYNTH_DECLS]
    obs.append(evspec_ob("E_evspec_synth_all_types", "kernel", list(range(len(synth))), synth, ["SYNTH"],
                         what="4 synthetic declarations covering u8 i8 u16 i16 u32 i32 u64 i64 str, %%, custom printf formats"))
    obs.append(evspec_ob("E_evspec_synth_smallbuf", "kernel", [3], [synth[3]], ["SYNTH", "SMALLBUF=24", "NUMLEN_MAX=6"],
                         what="synthetic declaration XAd(u16 x) 'only %5u{x} and %#x{x}.' (text ends with a literal: exact fill is reachable) into every buffer length 0..24"))
    # ---- the decoder's room bookkeeping for a STRING argument: the real ev_spec_print() on a well-formed jumbo event of the
    # model's real str-carrying declaration (VYc / 6Yc: u32 typeid, str label) with a label of symbolic length into a SMALL
    # caller buffer of symbolic length.  The queries above print strings of <= 8 bytes into 1024 bytes (the label always fits)
    # and the smallbuf query has no string: a seeded change that advanced the output cursor by snprintf()'s would-have-written
    # length instead of refusing a label that does not fit (closing quote and nil stored behind the buffer) was missed.
    STRFIT_OUTMAX, STRFIT_LABMAX, STRFIT_NUMLEN = 48, 40, 10
    for m in ("nosv", "nanos6"):
        try:
            raw = dump_evlist(sc, m)
        except EvlistError as ex:
            print("INCONCLUSIVE: cannot read the declaration list of %s from the working tree: %s" % (m, ex), flush=True)
            sc.cleanup()
            sys.exit(2)
        cands = [(i, sg, ds, ref_decl(sg, ds)) for i, (sg, ds) in enumerate(raw)]
        cands = [c for c in cands if c[3]["jumbo"] and c[3]["stroff"] >= 0]
        if not cands:
            print("INCONCLUSIVE: model %s lists no jumbo event with a string argument" % m, flush=True)
            sc.cleanup()
            sys.exit(2)
        i, sg, ds, d = cands[0]
        # literal text of the description around its arguments (reference parse; '%%' is one output character)
        lit = [len(x.replace("%%", "%")) for x in re.split(r"%(?!%)[^{%]*\{[A-Za-z0-9]+\}", ds)]
        pre, mid, post = lit[0], sum(lit[1:-1]), lit[-1]
        obs.append(Obligation(
            name="E_evspec_strfit_%s" % m, harness="C19/evspec_strfit.c",
            defines=["M_%s" % m, "EV_IDX=%d" % i, "EV_PSIZE=%d" % d["psize"], "EV_STROFF=%d" % d["stroff"],
                     "SF_PRE=%d" % pre, "SF_MID=%d" % mid, "SF_POST=%d" % post,
                     "OUTMAX=%d" % STRFIT_OUTMAX, "LABMAX=%d" % STRFIT_LABMAX, "NUMLEN_MAX=%d" % STRFIT_NUMLEN],
            srcs=["src/rt/ovni.c"], incdirs=UTHASH, unwind=72, timeout=900, native_cflags=NATIVE_GC,
            extra=["--object-bits", "12", "--max-field-sensitivity-array-size", "256"],
            desc=dict(functions=["ev_spec_print", "format_region", "parse_printf_format", "parse_arg_name", "ev_spec_find_arg", "print_arg (STR and numeric cases)", "advance_out",
                                 "ev_spec_compile", "parse_signature", "parse_args", "parse_arg", "parse_type (src/emu/ev_spec.c)", "emu_ev", "ovni_payload_size"],
                      symbolic="caller's buffer length L = 1..%d; one well-formed jumbo event of declaration %d of the real evlist of %s (%s): clock, every byte of the "
                               "fixed-width arguments (typeid), label length N = 0..%d, every label byte (non-nil), nil inside the payload, jumbo size = arguments + N + 1; "
                               "formatted length 1..%d of a number" % (STRFIT_OUTMAX, i, m, sg, STRFIT_LABMAX, STRFIT_NUMLEN),
                      bound="buffers of <= %d bytes and labels of <= %d bytes (the bookkeeping is the same arithmetic for ovnidump's 1024-byte buffer and longer labels); all (L, number "
                            "length) pairs by case split, label length symbolic inside each case" % (STRFIT_OUTMAX, STRFIT_LABMAX),
                      out="malformed payloads (E_evspec_%s: short payload, missing nil); model_event_print/check_payload in front of ev_spec_print (same query); the digits libc prints "
                          "for a number (any length 1..%d of non-nil characters is assumed)" % (m, STRFIT_NUMLEN),
                      oracle="caller's buffer END-ALIGNED in its object: CBMC's pointer/bounds checks see every store behind out[L-1]; canary bytes in front of the buffer (and behind it "
                             "in the native replay) unchanged; every snprintf window lies inside the buffer; the call returns; return 0 => a nil was stored inside out[0..L) (the buffer "
                             "is pre-filled with non-nil bytes); any other return value is a refusal",
                      assumptions=["snprintf of a string (%s): C99 model of stubs/libc_model.h (stores at most cap-1 characters + nil, returns the would-have-written length; bin/selftest compares it with glibc)",
                                   "snprintf of a number: arbitrary length 1..%d, same return-value contract" % STRFIT_NUMLEN,
                                   "reference parse of the signature/description in Python (checks/C19.py) gives the payload layout and the literal text lengths (%d, %d, %d: witnesses only)" % (pre, mid, post),
                                   "strtok_r/isgraph/isalnum: stubs/libc_model.h"])))
    # ---- ovnisort on VALID streams with a small, wrapping look-back ring: memory safety of the whole stream_winsort
    # (ring_add wrap-around, find_destination's backwards search).  These are C16's layout obligations (real
    # ovnisort.c, every clock and the ring size symbolic) re-run under this property: a seeded change started the
    # backwards search at ring index tail-1 without wrapping (reads ev[-1] when the ring has just wrapped), which
    # the arbitrary-byte sort-plan obligations above never reach with their fixed ring fill.
    from checks import C16 as _c16
    n = 0
    for ob in _c16.obligations(tier, sc):
        if ob.info_only:
            continue
        if ob.name in ("sort_xoxxc", "sort_xxoxc", "sort_oxxc", "sort_xxxoxc", "sort_oxcoxc") or (tier == "thorough" and n < 24):
            ob.name = "winsort_valid_stream_" + ob.name
            obs.append(ob)
            n += 1
    # ---- task events of the task-based models on the real task.c / body.c (no ghosts): memory safety of the nOS-V and
    # Nanos6 handlers for every task event in the depth-2 stack topologies.  These are C07's model-layer obligations
    # re-run under this property (CBMC's pointer checks are on there as everywhere): a seeded change let a buried
    # paused body resume, after which the handler dereferenced a NULL "running body" (SIGSEGV in ovniemu); the
    # payload obligations above use a task ghost and cannot reach that state.
    from checks import C07 as _c07
    for model in ("nosv", "nanos6"):
        for ob in _c07.model_obligations(model, tier):
            if ob.info_only or "." not in ob.name:
                continue
            ob.name = "task_events_no_crash_" + ob.name
            obs.append(ob)
    # ---- numbers in the JSON metadata (ovni.loom_cpus[].index / phyid, ranks): ovniemu's system construction on
    # arbitrary values.  These are C15's obligations on the real loom.c / system.c (CPU index and phyid over all
    # int64/int, CBMC's bounds checks on), re-run under this property: a seeded change replaced the range check of
    # loom_init_end by loom_get_cpu() != NULL, after which a sparse CPU index wrote outside cpus_array (SIGSEGV).
    from checks import C15 as _c15
    for ob in _c15.obligations(tier, sc):
        if ob.name in ("loom_cpus_merge", "sys_init_1stream") and not ob.expect_fail:
            ob.name = "metadata_numbers_" + ob.name
            obs.append(ob)
    return obs
