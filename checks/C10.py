from checks.fs_common import fs_obligations, move_unit_obligations

LEVEL_TEXT = ("C10: for EVERY single failing (or short) system call of the runtime, the library aborts or keeps a complete stream; "
              "it never deletes the only complete copy.")

def obligations(tier, sc):
    return fs_obligations(2, tier, sc) + move_unit_obligations(2, tier, sc)
