"""C16 - ovnisort yields a stable sorted permutation and touches only what it must.

One obligation = one concrete stream LAYOUT (which events are OU[ / OU] markers, which event is
the big one) with every clock, the payload bytes, the look-back (ring) size and the short-write
behaviour of pwrite symbolic.  The layouts enumerated are the stated bound; inside a layout the
verdict is a solver verdict over all values.
"""
import itertools

from vp.core import Obligation

LEVEL_TEXT = ("C16: bounded symbolic execution of the real stream_winsort/execute_sort_plan/stream_check "
              "(src/emu/ovnisort.c) with the real stream_step/ovni_ev_size on every stream layout of the stated "
              "families; per layout all clocks (< 2^63), payload bytes, look-back sizes and one short pwrite are symbolic.")

MANIFEST = dict(
    level_text=LEVEL_TEXT,
    level_note=("Trusted: cbmc 6.11 + minisat2, goto-cc, the environment model in harness/C16/sort.c (file == mapping, "
                "pwrite visible through the mapping, stable qsort, zero-filled fixed-size malloc objects, memcpy/pwrite "
                "resolved against event boundaries with asserted fall-through).  Bound: streams of <=5 events (quick) / "
                "<=6 events (thorough), <=1 event with an 8-byte payload or a 3-byte jumbo, markers alternating."),
    technique=("bounded symbolic execution of the real C units with CBMC (SAT), one query per concrete stream layout, "
               "independent reference (rank-based stable order + window predicate) as oracle, unwinding assertions, "
               "native ASan replay of counterexamples"),
)

OPEN, CLOSE, OTHER = 0, 1, 2
SYM = {OPEN: "[", CLOSE: "]", OTHER: "x"}
NAME = {OPEN: "o", CLOSE: "c", OTHER: "x"}    # obligation names: o = OU[, c = OU], x = other


def alternating_layouts(n):
    """All kind sequences of length n whose markers alternate OU[ OU] ... and end closed."""
    out = []
    for seq in itertools.product((OPEN, CLOSE, OTHER), repeat=n):
        inside = False
        ok = True
        for k in seq:
            if k == OPEN:
                if inside:
                    ok = False
                    break
                inside = True
            elif k == CLOSE:
                if not inside:
                    ok = False
                    break
                inside = False
        if ok and not inside:
            out.append(seq)
    return out


def regions(seq):
    """[(open_index, close_index)] of the closed regions."""
    res, op = [], None
    for i, k in enumerate(seq):
        if k == OPEN:
            op = i
        elif k == CLOSE:
            res.append((op, i))
            op = None
    return res


def make(seq, bigpos=-1, bigkind=0, timeout=900, closed=True, unstable=False):
    n = len(seq)
    # a jumbo that is the LAST event of the file gets 12 data bytes: with fewer, forming the lvalue
    # ev->payload (a 16-byte union) at the end of the exact-size object is flagged by CBMC (UB-NOTE class
    # already reported by C19); a jumbo in any other position keeps 3 data bytes
    JD = 12 if (bigkind == 2 and bigpos == n - 1) else 3
    name = "".join(NAME[k] for k in seq)
    regs = regions(seq)
    nonempty = [(o, c) for (o, c) in regs if c - o > 1]
    nreg = len(nonempty)
    has_prefix = int(any(o >= 1 or c - o > 2 for (o, c) in nonempty))
    bigmoves = int(bigpos >= 0 and any(c > bigpos for (o, c) in nonempty))
    bigsz = {0: 12, 1: 20, 2: 16 + JD}[bigkind if bigpos >= 0 else 0]
    fam = ("the family {all alternating layouts of %d events} x {%s} is enumerated completely in this tier, so the "
           "second-sort-is-identity conclusion holds for it" % (n, "no big event" if bigpos < 0 else
           "big event of this kind at every position")) if closed else \
          ("this layout is a sample: its family is not enumerated completely in this tier, so only 'the result "
           "satisfies the precondition again' is claimed for the second sort")
    total = 8 + 12 * (n - 1) + bigsz
    jmax = max([c for (o, c) in nonempty], default=1)   # events before the last closing marker that is sorted
    b = jmax + 1
    defines = ["NEV=%d" % n, "KINDS=" + ",".join(str(k) for k in seq),
               "NREG=%d" % nreg, "HAS_PREFIX=%d" % has_prefix, "BIGMOVES=%d" % bigmoves,
               "RSYM"]    # one run with a symbolic look-back size (the harness can also case-split on it)
    if bigpos >= 0:
        defines += ["BIGPOS=%d" % bigpos, "BIGKIND=%d" % bigkind, "JD=%d" % JD]
        name += "-%s@%d" % ({1: "pay8", 2: "jumbo%d" % JD}[bigkind], bigpos)
    unwindset = ["stream_winsort.1:%d" % (n + 2), "stream_check.0:%d" % (n + 2),
                 "find_min_clock.0:%d" % b, "find_destination.1:%d" % b, "count_events.0:%d" % b,
                 "index_events.0:%d" % b, "c16_qsort.0:%d" % b, "c16_qsort.1:%d" % b,
                 "write_events.1:%d" % b, "write_stream.0:3", "rebuild_ring.0:%d" % b, "ring_check.0:%d" % b]
    big_txt = "none (all events 12 bytes)" if bigpos < 0 else \
        ("event %d is %s" % (bigpos, "a normal event with an 8-byte payload (20 bytes)" if bigkind == 1
                              else "a jumbo event with %d data bytes (%d bytes)" % (JD, 16 + JD)))
    if unstable:
        defines.append("QSORT_UNSTABLE")
        name += "-unstableqsort"
    return Obligation(
        name="sort_" + name, info_only=unstable, harness="C16/sort.c", defines=defines,
        srcs=["src/emu/stream.c", "src/rt/ovni.c"],
        native_srcs=["src/emu/trace.c", "src/emu/path.c", "src/parson.c"],   # only referenced by code that is never reached
        unwind=total + 2, unwindset=unwindset, timeout=timeout, mem_gb=10,
        extra=["--object-bits", "10", "--max-field-sensitivity-array-size", str(total)],
        desc=dict(
            functions=["stream_winsort", "execute_sort_plan", "find_destination", "find_min_clock", "sort_buf",
                       "count_events", "index_events", "write_events", "cmp_ev", "write_stream", "rebuild_ring",
                       "ring_add", "ring_check", "ring_reset", "starts_unsorted_region", "ends_unsorted_region",
                       "stream_check", "stream_step", "next_ev_size", "stream_evclock", "stream_ev",
                       "stream_allow_unsorted", "ovni_ev_size", "ovni_payload_size", "ovni_ev_get_clock"],
            symbolic=("clock of each of the %d events (any value < 2^63, ties allowed), payload/jumbo data bytes, "
                      "look-back ring size 1..%d, which pwrite call is short (or none) and how many bytes it writes"
                      % (n, n + 2)),
            bound=("layout %s (x = ordinary event, [ = OU[, ] = OU]); big event: %s; stream of %d bytes; "
                   "%d non-empty region(s); %s" % ("".join(SYM[k] for k in seq), big_txt, total, nreg, fam)) +
                  ("; INFORMATIONAL: qsort reverses equal elements (legal per ISO C); a failure here only documents that "
                   "stability of ovnisort relies on a stable qsort" if unstable else ""),
            out=("streams longer than the layouts enumerated; more than one non-12-byte event; clocks >= 2^63 "
                 "(cmp_ev compares signed, find_destination/ring_check unsigned); look-back of 10^6 events and "
                 "multi-MiB regions; markers that do not alternate (nested OU[, stray OU], unterminated region) and "
                 "out-of-order events outside regions are executed (memory safety, no abort is required there) but "
                 "no functional claim is made; allocation/open/close/fdatasync failures; state of the file after a "
                 "failed sort"),
            oracle=("independent reference in the harness: P = markers alternate and every event that has a greater "
                    "clock before it lies strictly inside a closed region; window = the anchor (last earlier event "
                    "with a smaller clock than the region minimum) is among the last R-1 events before the closing "
                    "marker, or no anchor exists and fewer than R-1 events precede it.  P and all regions in window "
                    "=> return 0; P and return 0 => every original event lies byte for byte at its offset in the "
                    "stable clock order (rank = #smaller clocks + #equal clocks before it), header unchanged, all "
                    "bytes before the earliest affected offset unchanged, pwrite never leaves [0,size) nor reaches "
                    "the closing marker, result satisfies P and the window predicate again (=> a second sort is "
                    "the identity, by this same theorem applied to the result, whose layout belongs to the same "
                    "enumerated family), stream_check returns 0, stream_step in sorted mode accepts all events; "
                    "P and a region out of window (and none exactly on the edge) => return -1; return -1 => an "
                    "error was printed; no die() under P"),
            assumptions=[
                "C16 env: open/close/fdatasync succeed; the MAP_PRIVATE mapping of stream.obs shows later pwrite()s to the file (file and mapping are one object), as ovnisort itself relies on in rebuild_ring/ring_check",
                "C16 env: pwrite may be short (any byte count) at most once per run and then continues",
                "C16 env: qsort is stable (insertion sort calling the real cmp_ev); true for glibc's merge-sort path, not guaranteed by ISO C",
                "C16 env: malloc/calloc succeed and return zero-filled objects of fixed size (requested size recorded and checked by the memcpy/pwrite models; a direct over-read inside the larger object is not detected by CBMC)",
                "C16 env: memcpy and pwrite are modelled by resolving pointer/length against the event boundaries of the layout; an argument outside that set fails an assertion",
                "C16 env: struct stream is set to the state load_obs() produces (buf, size, offset=8, active=1, unsorted=1); load_obs itself is covered by C19",
                "C16: clocks are < 2^63 (CLOCK_MONOTONIC nanoseconds)",
            ]))


def obligations(tier, sc):
    obs = []
    if tier == "quick":
        # closed family n=3 with one big event (every layout x every position x both kinds)
        for seq in alternating_layouts(3):
            obs.append(make(seq))
            for pos in range(3):
                for kind in (1, 2):
                    obs.append(make(seq, pos, kind))
        # closed plain families n=4, n=5
        for n in (4, 5):
            for seq in alternating_layouts(n):
                obs.append(make(seq))
        # a few big-event layouts with 4 events (payload inside / before / marker with payload / jumbo inside)
        obs.append(make((OTHER, OPEN, OTHER, CLOSE), 2, 1, closed=False))
        obs.append(make((OTHER, OPEN, OTHER, CLOSE), 2, 2, closed=False))
        obs.append(make((OTHER, OPEN, OTHER, CLOSE), 0, 2, closed=False))
        obs.append(make((OPEN, OTHER, OTHER, CLOSE), 1, 2, closed=False))
        obs.append(make((OPEN, OTHER, OTHER, CLOSE), 0, 1, closed=False))
        # two non-empty regions (the second one searches the ring rebuilt by the first)
        obs.append(make((OPEN, OTHER, CLOSE, OPEN, OTHER, CLOSE), closed=False))
        obs.append(make((OPEN, OTHER, OTHER, CLOSE), unstable=True))
    else:
        for n in (3, 4):
            for seq in alternating_layouts(n):
                obs.append(make(seq))
                for pos in range(n):
                    for kind in (1, 2):
                        obs.append(make(seq, pos, kind, timeout=1500))
        for n in (5, 6):
            for seq in alternating_layouts(n):
                obs.append(make(seq, timeout=2400))
        # five events with a jumbo: closed family (every layout x every position)
        for seq in alternating_layouts(5):
            for pos in range(5):
                obs.append(make(seq, pos, 2, timeout=2400))
        obs.append(make((OPEN, OTHER, OTHER, CLOSE), unstable=True))
    return obs
