from vp.core import Obligation
from checks.rt_step_common import step_obligations

LEVEL_TEXT = ("C02: every API call of a conformant program, from any reachable buffer state at the real 2 MiB capacity, leaves a "
              "stream whose events tile, whose clocks never decrease and whose flush markers are paired and non-nested.")

def obligations(tier, sc):
    obs = step_obligations(2, tier, [0, 1, 2, 3])
    return obs
