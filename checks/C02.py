from vp.core import Obligation
from checks.rt_step_common import step_obligations

LEVEL_TEXT = ("C02: every API call of a conformant program, from any reachable buffer state at the real 2 MiB capacity, leaves a "
              "stream whose events tile, whose clocks never decrease and whose flush markers are paired and non-nested.")

def obligations(tier, sc):
    obs = step_obligations(2, tier, [0, 1, 2, 3])
    # isolation of concurrent threads (every stream a multi-threaded conformant program leaves is valid only if
    # threads cannot corrupt each other's streams): C11's thread-modular obligations for the stream-touching calls
    from checks import C11 as _c11
    for ob in _c11.obligations(tier, sc):
        if ob.name in ("tm_ev_emit", "tm_flush", "tm_thread_free", "tm_thread_free_tmpdir"):
            ob.name = "isolation_" + ob.name
            obs.append(ob)
    # metadata completeness: the full protocol run of C09's harness, event free, both modes
    from checks.fs_common import gen_parson, FUNCS
    gen_parson(sc)
    for tmp in (0, 1):
        obs.append(Obligation(
            name="metadata_complete_%s" % ("tmpdir" if tmp else "direct"), harness="C09/fs_run.c",
            defines=["GFS_MODE=0", "GFS_TMPDIR=%d" % tmp, "GFS_BENIGN_SHORT=0", "ATTR_FLUSH=1", "CONCRETE_SIZES", "C02_META"] + (["GFS_JSON_FIRST=1"] if tmp else []),
            unwind=70, unwindset=["ovni_ev_add:3", "add_flush_events:3", "write_evbuf.0:5", "move_thread_to_final.0:5", "move_thdir_to_final.0:4",
                                  "move_thdir_to_final.1:5", "v_readdir.0:4", "set_thread_cpus.0:3"],
            native_srcs=["src/parson.c"], native_cflags=["-Wl,--allow-multiple-definition"], extra=["--object-bits", "10"], timeout=600,
            desc=dict(functions=FUNCS + ["ovni_proc_set_rank", "ovni_add_cpu", "set_thread_rank", "set_thread_cpus"],
                      symbolic="whether ovni_proc_set_rank / ovni_add_cpu are called and their arguments; stdio buffering choices",
                      bound="one process, one thread, full protocol run (proc_init .. proc_fini), fault free",
                      out="contents of the attribute VALUES (only which keys are set is tracked; tid/pid/loom values are C12/C15 on the emulator side)",
                      oracle="the keys present in the final serialisation of stream.json are exactly the mandatory ones plus rank/nranks and loom_cpus iff set; finished = 1; the file ends up complete in the trace directory",
                      assumptions=["content-free parson ghost that records which keys are set (stubs/ghostfs.h)"])))
    # "consequently the emulator accepts the trace": the marker pair is appended after whatever event filled the
    # buffer, so the emulator must take OF[ / OF] in every thread state (C04's topology, real pre_flush)
    import re, os
    from vp.core import REPO
    from checks import C04 as _c04
    setup = open(os.path.join(REPO, "src/emu/ovni/setup.c")).read()
    if not re.search(r"static const int chan_stack\[CH_MAX\] = \{ 0 \};", setup) or ".ch_dup" in setup:
        raise RuntimeError("the ovni model's flush channel is no longer a plain CHAN_SINGLE channel: emu_flush_pair_* builds it by hand")
    for cfg in (1, 4 * 3):   # none/cpu0, vcpu/none: one thread unbound (not started / dead), one bound (running/paused/cooling/warming); the flusher is symbolic
        b0, b1 = cfg // 4, cfg % 4
        obs.append(Obligation(
            name="emu_flush_pair_th0-%s_th1-%s" % (_c04.NAMES[b0], _c04.NAMES[b1]), harness="C04/step.c",
            defines=["CFG=%d" % cfg, "CATS=1", "FLUSHPAIR"], timeout=600,
            desc=dict(functions=["model_ovni_event", "pre_flush", "chan_set", "chan_flush", "chan_read"] + _c04.REAL_FUNCS[8:],
                      symbolic="thread states of both threads (every state compatible with the binding: not started, running, paused, cooling, warming, dead), "
                               "which thread flushes, both marker clocks (non-decreasing)",
                      bound="2 threads; binding th0=%s th1=%s; one OF[ OF] pair" % (_c04.NAMES[b0], _c04.NAMES[b1]),
                      out="stream_step's clock check (C03/C12); burst/mark/unordered categories",
                      oracle="both markers accepted in every thread state; flush channel = flushing in between, null afterwards; thread/CPU state unchanged",
                      assumptions=_c04.ASSUMPTIONS + ["flush channel built as model_thread_create builds it (CHAN_SINGLE, no property; the spec tables are checked textually on every run)"]),
            **_c04.COMMON))
    return obs
