from vp.core import Obligation
from checks.rt_step_common import step_obligations

LEVEL_TEXT = ("C02: every API call of a conformant program, from any reachable buffer state at the real 2 MiB capacity, leaves a "
              "stream whose events tile, whose clocks never decrease and whose flush markers are paired and non-nested.")

def obligations(tier, sc):
    obs = step_obligations(2, tier, [0, 1, 2, 3])
    # isolation of concurrent threads (every stream a multi-threaded conformant program leaves is valid only if
    # threads cannot corrupt each other's streams): C11's thread-modular obligations for the stream-touching calls
    from checks import C11 as _c11
    for ob in _c11.obligations(tier, sc):
        if ob.name in ("tm_ev_emit", "tm_flush", "tm_thread_free", "tm_thread_free_tmpdir"):
            ob.name = "isolation_" + ob.name
            obs.append(ob)
    # metadata completeness: the full protocol run of C09's harness, event free, both modes
    from checks.fs_common import gen_parson, FUNCS
    gen_parson(sc)
    for tmp in (0, 1):
        obs.append(Obligation(
            name="metadata_complete_%s" % ("tmpdir" if tmp else "direct"), harness="C09/fs_run.c",
            defines=["GFS_MODE=0", "GFS_TMPDIR=%d" % tmp, "GFS_BENIGN_SHORT=0", "ATTR_FLUSH=1", "CONCRETE_SIZES", "C02_META"] + (["GFS_JSON_FIRST=1"] if tmp else []),
            unwind=70, unwindset=["ovni_ev_add:3", "add_flush_events:3", "write_evbuf.0:5", "move_thread_to_final.0:5", "move_thdir_to_final.0:4",
                                  "move_thdir_to_final.1:5", "v_readdir.0:4", "set_thread_cpus.0:3"],
            native_srcs=["src/parson.c"], native_cflags=["-Wl,--allow-multiple-definition"], extra=["--object-bits", "10"], timeout=600,
            desc=dict(functions=FUNCS + ["ovni_proc_set_rank", "ovni_add_cpu", "set_thread_rank", "set_thread_cpus"],
                      symbolic="whether ovni_proc_set_rank / ovni_add_cpu are called and their arguments; stdio buffering choices",
                      bound="one process, one thread, full protocol run (proc_init .. proc_fini), fault free",
                      out="contents of the attribute VALUES (only which keys are set is tracked; tid/pid/loom values are C12/C15 on the emulator side)",
                      oracle="the keys present in the final serialisation of stream.json are exactly the mandatory ones plus rank/nranks and loom_cpus iff set; finished = 1; the file ends up complete in the trace directory",
                      assumptions=["content-free parson ghost that records which keys are set (stubs/ghostfs.h)"])))
    return obs
