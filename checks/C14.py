"""C14 - version gating follows semantic versioning in the runtime and in the emulator; a model is
enabled exactly when some stream requires it (or all are forced on); events of a model that is
not enabled are rejected."""
import os
import re

from vp.core import Obligation, REPO, project_version

LEVEL_TEXT = ("C14: bounded symbolic proof on the real code that version_is_compatible and ovni_version_check_str accept exactly "
              "same-major/minor-not-greater requests (full-width int triples), that version_parse accepts every well-formed and refuses every "
              "malformed string of <=9 characters over {0-9 . - + space a} (stated grey zone of strtok_r/strtol leniency: no demand), that "
              "ovni_thread_require stores only sanitised (model, version) pairs, and that model_version_probe / model_probe / model_event "
              "enable a model iff some of <=3 streams requires a compatible version (or -a), refuse the trace iff a requirement is malformed "
              "or incompatible, and reject events of models that are not enabled - generically and for each of the 8 real models through its own probe hook.")

MANIFEST = dict(
    level_text=LEVEL_TEXT,
    level_note="Grey zone (outside the claim, no demand either way): version strings that can only be accepted through strtok_r/strtol leniency "
               "(empty components '1..2.3' '.1.2.3' '1.2.-3', leading blank or sign ' 1.2.3' '+1.2.3' '-0.1.2', a fourth component '1.2.3.4'); "
               "numbers that do not fit an int (version_parse narrows strtol's long to int: '4294967297.11.0' parses as 1.11.0; needs >9 characters); "
               "streams without metadata / without ovni.require (refused by the code, not demanded); ill-typed requirement values; models without a probe hook "
               "(none exists). The ovni model's hook answers 'always enabled': checked under 'every stream requires ovni' (ovni_thread_init does it). "
               "model_probe is verified compositionally: model_version_probe on streams (version_probe), model_probe/model_event on arbitrary hook "
               "results (model_probe_event), each real hook = model_version_probe of its own spec (model_<name>); the thorough tier adds the "
               "non-compositional end-to-end query.",
    technique="CBMC 6.11 bounded symbolic execution of src/include/version.h, src/rt/ovni.c (ovni_version_check_str, ovni_thread_require), "
              "src/emu/model.c and each src/emu/<model>/setup.c; strtok_r/strtol/strpbrk/snprintf from stubs/libc_model.h (differentially tested against glibc), "
              "parson getters = ghost document stubs/vjson.h, parson setters = recorder; independent reference scanner for the version format; "
              "provider versions read by Python from CMakeLists.txt / setup.c / ovni.h.in on every run; native ASan/UBSan replay of counterexamples")

MODELS = ["ovni", "nosv", "nanos6", "nodes", "mpi", "tampi", "openmp", "kernel"]
NATIVE_GC = ["-ffunction-sections", "-fdata-sections", "-Wl,--gc-sections"]

LIBC_ASSUME = "strtok_r, strtol, strpbrk, snprintf are the reference models of stubs/libc_model.h (validated natively against glibc by bin/selftest)"
VJ_ASSUME = "parson getters replaced by the ghost document model stubs/vjson.h (differentially tested against real parson by bin/selftest)"
GREY = ("version strings accepted only through strtok_r/strtol leniency (empty component, leading blank or sign, '-0', fourth component) are a "
        "grey zone: the statement does not say which way they go, nothing is demanded for them")
EVSPEC_ASSUME = "model_evspec_init (event catalogue compilation, subject of C18) replaced by a success stub"


def lib_version():
    v = [int(x) for x in project_version().split(".")]
    return v + [0] * (3 - len(v))


def doc_versions():
    """{name: [(maj, min, patch), ...]} from the "- <name> X.Y.Z" entries of versions.md."""
    out = {}
    path = os.path.join(REPO, "doc/user/emulation/versions.md")
    if not os.path.exists(path):   # partial copy of the repo (bin/mutest copies src/ and include/ only)
        return None
    txt = open(path).read()
    for m in re.finditer(r"^- +([A-Za-z0-9_]+) +(\d+)\.(\d+)\.(\d+)", txt, flags=re.M):
        out.setdefault(m.group(1), []).append(tuple(int(x) for x in m.group(2, 3, 4)))
    return out


def code_version(model):
    """((maj, min, patch) or None, text) of the .version initialiser of src/emu/<model>/setup.c
    (Python regex, never version_parse); a macro is resolved in include/ovni.h.in."""
    txt = open(os.path.join(REPO, "src/emu/%s/setup.c" % model)).read()
    m = re.search(r"\.version\s*=\s*(\"[^\"]*\"|[A-Za-z_][A-Za-z0-9_]*)\s*,", txt)
    if not m:
        raise RuntimeError("C14: no .version initialiser in src/emu/%s/setup.c" % model)
    v = m.group(1)
    if not v.startswith('"'):
        h = open(os.path.join(REPO, "include/ovni.h.in")).read()
        d = re.search(r"#\s*define\s+%s\s+(\"[^\"]*\")" % re.escape(v), h)
        if not d:
            raise RuntimeError("C14: cannot resolve %s for model %s" % (v, model))
        v = d.group(1)
    v = v.strip('"')
    mm = re.fullmatch(r"(\d+)\.(\d+)\.(\d+)", v)
    return (tuple(int(x) for x in mm.groups()) if mm else None), v


def obligations(tier, sc):
    obs = []
    thorough = tier == "thorough"
    lv = lib_version()
    libdefs = ["LIBV_MAJOR=%d" % lv[0], "LIBV_MINOR=%d" % lv[1]]
    libtxt = "%d.%d.%d" % tuple(lv)

    # ---- (1) the compatibility relation --------------------------------------------------------------
    obs.append(Obligation(
        name="compat_relation", harness="C14/compat.c", defines=["MODE=0"] + libdefs, srcs=["src/parson.c"], unwind=12, timeout=600,
        desc=dict(functions=["version_is_compatible"],
                  symbolic="want[3], have[3]: six full-width ints",
                  bound="none (all 2^192 pairs of triples)",
                  out="-",
                  oracle="returns 1 iff want.major == have.major and want.minor <= have.minor, else 0 (patch ignored); arguments unchanged",
                  assumptions=[])))
    obs.append(Obligation(
        name="check_str_fullwidth", harness="C14/compat.c", defines=["MODE=1"] + libdefs, srcs=["src/parson.c"], unwind=12, timeout=600,
        desc=dict(functions=["ovni_version_check_str", "version_parse"],
                  symbolic="the three numbers of the requested version: full-width ints (negative included), delivered by a ghost strtol for the components of \"A.B.C\"",
                  bound="all int triples against the library version %s (OVNI_LIB_VERSION of the generated ovni.h, parsed by the real code; the oracle takes "
                        "it from CMakeLists.txt)" % libtxt,
                  out="the decimal conversion itself (check_str_digits, parse_strings)",
                  oracle="returns iff all three numbers >= 0, major == %d and minor <= %d; aborts (die) otherwise" % (lv[0], lv[1]),
                  assumptions=["ghost strtol for the place-holder components A, B, C: converts the whole component and returns an arbitrary int; "
                               "every other string goes through the libc model", LIBC_ASSUME])))
    obs.append(Obligation(
        name="check_str_digits", harness="C14/compat.c", defines=["MODE=2"] + libdefs, srcs=["src/parson.c"], unwind=12, timeout=600,
        desc=dict(functions=["ovni_version_check_str", "version_parse"],
                  symbolic="version string D[D].D[D].D[-x]: five symbolic digits, one or two digits for major and minor, optional suffix",
                  bound="majors and minors 0..99, patch 0..9, against the library version %s" % libtxt,
                  out="longer numbers",
                  oracle="returns iff major == %d and minor <= %d (decimal value of the digits); aborts otherwise" % (lv[0], lv[1]),
                  assumptions=[LIBC_ASSUME])))

    # ---- (2) version_parse ---------------------------------------------------------------------------
    plen = 10 if thorough else 9
    obs.append(Obligation(
        name="parse_strings", harness="C14/parse.c", defines=["MODE=0", "LEN=%d" % plen], unwind=plen + 3, timeout=3000 if thorough else 900,
        desc=dict(functions=["version_parse"],
                  symbolic="every string of length 0..%d over the alphabet {0-9 . - + space a}" % plen,
                  bound="strings of <= %d characters (13^%d shapes)" % (plen, plen),
                  out="longer strings except the length limit (parse_null_long); characters outside the alphabet ('a' stands for every non-numeric byte); " + GREY,
                  oracle="independent scanner (harness/C14/ref_version.h): D+.D+.D+[-suffix] => 0 with the decimal triple; fewer than two dots / three digit runs, "
                         "or (no empty component and) a component with a letter, without digit, with a non-digit after a digit, or negative => -1; "
                         "always: result 0 or -1, accepted numbers >= 0, input string unmodified, no out-of-bounds access",
                  assumptions=[LIBC_ASSUME])))
    obs.append(Obligation(
        name="parse_null_long", harness="C14/parse.c", defines=["MODE=1"], unwind=82, timeout=900,
        desc=dict(functions=["version_parse"],
                  symbolic="NULL or the string \"1.2.3-xxx...\" of symbolic length 58..72",
                  bound="lengths 58..72 around the 64-byte buffer",
                  out="-",
                  oracle="NULL => -1; length >= 64 => -1; shorter => 0 with (1,2,3); the 64-byte copy never overflows (CBMC bounds checks)",
                  assumptions=[LIBC_ASSUME])))

    # ---- (3) ovni_thread_require ---------------------------------------------------------------------
    vlen = 9 if thorough else 7
    obs.append(Obligation(
        name="require_sanitise", harness="C14/require.c", defines=["MODE=0", "VLEN=%d" % vlen], srcs=["src/parson.c"], unwind=20,
        timeout=3000 if thorough else 900,
        desc=dict(functions=["ovni_thread_require", "version_parse"],
                  symbolic="model name: NULL or any string of <= 4 characters over {a b space .}; version: NULL or any string of <= %d characters over "
                           "{0-9 . - + space a}; thread initialised or not; the metadata store succeeds or fails" % vlen,
                  bound="model names <= 4, versions <= %d characters" % vlen,
                  out="parson's own setter (third party; ghost recorder); " + GREY,
                  oracle="aborts iff thread not initialised, model NULL / with blank or dot / <= 1 character, version NULL or malformed (reference scanner), or "
                         "the store fails; otherwise exactly one store of (\"ovni.require.\" + model, the version pointer)",
                  assumptions=[LIBC_ASSUME, "json_value_get_object returns the thread's metadata object; json_object_dotset_string records (path, value) and may fail"])))
    obs.append(Obligation(
        name="require_long_model", harness="C14/require.c", defines=["MODE=1"], srcs=["src/parson.c"], unwind=130, timeout=900,
        desc=dict(functions=["ovni_thread_require"],
                  symbolic="model name \"aaa...\" of symbolic length 108..122, version \"1.0.0\", the store succeeds or fails",
                  bound="lengths around the 128-byte path buffer",
                  out="-",
                  oracle="aborts iff 13 + length >= 128 (or the store fails); otherwise the full path is stored; the 128-byte buffer never overflows",
                  assumptions=[LIBC_ASSUME])))

    # ---- (4) emulator: enablement ---------------------------------------------------------------------
    en_sym = ("number of streams 0..%d; per stream: metadata loaded or not, ovni.require present or not, requirement for model A / B present or not and its version string "
              "in one of 8 shapes (M.m.p, M.m.p-a, M.1m.p | M.m, M.a.p, M.m.pa, -M.m.p, empty) with all digits symbolic; the provider's version H.h.q or H.1h.q "
              "with symbolic digits")
    obs.append(Obligation(
        name="version_probe", harness="C14/enable.c", defines=["NTH=3", "PART=1"], unwind=12, timeout=900,
        desc=dict(functions=["model_version_probe", "should_enable", "version_parse", "version_is_compatible"],
                  symbolic=en_sym % 3,
                  bound="<= 3 streams; (want, have) over all triples of decimal digits plus two-digit minors 10..19",
                  out="streams without metadata or without ovni.require (only 'returns -1/0/1, memory safe' asserted); requirement values that are not strings",
                  oracle="-1 iff some stream requires a malformed or incompatible (major differs or minor greater, computed on the chosen digits) version of the model; "
                         "else 1 iff some stream requires it, else 0; requirements for other models are irrelevant",
                  assumptions=[LIBC_ASSUME, VJ_ASSUME, EVSPEC_ASSUME])))
    obs.append(Obligation(
        name="model_probe_event", harness="C14/enable.c", defines=["NTH=3", "PART=2"], unwind=12,
        unwindset=["model_probe.0:257", "model_probe.1:257"], timeout=900,
        desc=dict(functions=["model_init", "model_register", "model_probe", "model_event"],
                  symbolic="results of the probe hooks of two registered models: any int each; -a flag: any int; model byte of the event: 0..255; "
                           "result of the event handler: any int",
                  bound="two registered models (one with, one without event handler) in the real 256-entry tables",
                  out="models without probe hook (none exists in src/emu)",
                  oracle="model_probe = -1 iff a hook result < 0; else a model is enabled iff its hook result > 0 or -a, and no other entry is enabled; "
                         "model_event = -1 with no handler call iff the model byte is not registered or not enabled, else the handler runs exactly once and "
                         "its failure is reported as -1",
                  assumptions=[EVSPEC_ASSUME, "probe hooks are ghosts here; that each real hook is model_version_probe of its own spec is checked by model_<name>"])))
    if thorough:
        obs.append(Obligation(
            name="probe_end_to_end", harness="C14/enable.c", defines=["NTH=2", "PART=0"], unwind=12,
            unwindset=["model_probe.0:257", "model_probe.1:257"], timeout=3000,
            desc=dict(functions=["model_init", "model_register", "model_probe", "model_version_probe", "should_enable", "model_event", "version_parse",
                                 "version_is_compatible"],
                      symbolic=(en_sym % 2) + "; -a flag; model byte of one event 0..255; handler result",
                      bound="<= 2 streams, two registered models with real version probes, one event",
                      out="as version_probe",
                      oracle="model_probe = -1 iff some stream has a malformed/incompatible requirement for A or B; else enabled[X] iff some stream requires X or -a; "
                             "model_event rejects the event iff its model is not registered or not enabled",
                      assumptions=[LIBC_ASSUME, VJ_ASSUME, EVSPEC_ASSUME])))

    docv = doc_versions()
    if docv is None:
        print("NOTE C14: doc/user/emulation/versions.md not found under %s; documentation cross-check of model versions skipped" % REPO, flush=True)
    for m in MODELS:
        cv, cvs = code_version(m)
        if docv is None:
            pass
        elif m not in docv:
            print("NOTE C14: model %s has no '- %s X.Y.Z' entry in doc/user/emulation/versions.md" % (m, m), flush=True)
        elif cv is not None and max(docv[m]) != cv:
            print("NOTE C14: model %s declares version %s but doc/user/emulation/versions.md lists %d.%d.%d as the newest" % (
                (m, cvs) + max(docv[m])), flush=True)
        if cv is None:
            cv = (-1, -1, -1)   # the harness assertion on the model's own version reports it
        obs.append(Obligation(
            name="model_%s" % m, harness="C14/probe_model.c",
            defines=["M_%s" % m, 'MNAME="%s"' % m, "HAVE_MAJOR=%d" % cv[0], "HAVE_MINOR=%d" % cv[1]],
            # ovni: mark.c's create/connect leaves need link-time bodies in the native replay (never called); the file is empty under goto-cc
            stubs=["../harness/C14/ovni_native_stubs.c"] if m == "ovni" else [],
            incdirs=["stubs/uthash_model"], native_cflags=NATIVE_GC, unwind=12,
            unwindset=["model_probe.0:257", "model_probe.1:257"], timeout=900,
            desc=dict(functions=["model_%s_probe (src/emu/%s/setup.c)" % (m, m), "struct model_spec model_%s" % m, "model_init", "model_register", "model_probe",
                                 "model_version_probe", "should_enable", "model_event", "version_parse", "version_is_compatible"],
                      symbolic="0..2 streams%s; per stream: requirement for \"%s\" present or not%s with a version string in one of 8 shapes (all digits symbolic), a requirement "
                               "for another model present or not, ovni.finished present or not; -a flag: any int" % (
                                   " (at least 1)" if m == "ovni" else "", m, " (always present)" if m == "ovni" else ""),
                      bound="<= 2 streams; requested versions over all digit triples plus two-digit minors against the model's version %s" % cvs,
                      out="the model's event handler (C18, C04-C08); only the rejection of events while the model is NOT enabled is checked here"
                          + ("; streams that do not require the ovni model (libovni always writes the requirement)" if m == "ovni" else ""),
                      oracle="spec name is \"%s\", legal for ovni_thread_require, id is the model byte, own version is a strict D.D.D equal to %s; model_probe = -1 iff some "
                             "stream requires a malformed or incompatible version of %s, else enabled[id] iff some stream requires it or -a; model_event = -1 while not enabled" % (m, cvs, m),
                      assumptions=[LIBC_ASSUME, VJ_ASSUME, EVSPEC_ASSUME,
                                   "model environment harness/C08/model_env.h (leaf actions of the model's create/connect/event code are recorders; not reached by the probe)"]
                                  + (["ovni model: every stream requires it and there is at least one stream (ovni_thread_init always calls ovni_thread_require(\"ovni\", ...))"]
                                     if m == "ovni" else []))))
    return obs
