from vp.core import Obligation

LEVEL_TEXT = ("C20: breakdown rows = sorted multiset of the per-CPU breakdown values; bounded symbolic "
              "execution of the real sort.c / breakdown.c / mux.c (one operation from any state of the invariant).")

MANIFEST = dict(
    level_text=LEVEL_TEXT,
    level_note=("Composition of five families, each one operation of the real code from ANY state of a stated invariant: "
                "(1) sort_replace on every sorted int64 array of n<=6 (8 thorough) rows, every position and new value; "
                "(2) sort_cb_input for n<=4 (5) CPUs: rows == sort(values) and exactly the changed rows are written; "
                "(3) the breakdown muxes of nOS-V and Nanos6 (connect_cpu, select_tr, select_idle, mux.c) against a ghost patch bay: "
                "tri = idle unless Progressing, else task type in a task body with a task, else subsystem, else unknown subsystem, "
                "for every write pattern of {subsystem, task type, idle} of the tier (all 16 in thorough) over value classes "
                "{null, compared constant, one representative other} and any task type; "
                "(4) create/connect wiring through recorders (one sort input per physical CPU in list order, row i = output i, "
                "rows = ncpus - nlooms, flags SKIPDUP|ZERO); "
                "(5) the chain END TO END for the event in which the running thread of a CPU changes: the three CPU views written in the order of the "
                "real enum <model>_chan, real breakdown muxes + mux.c + sort.c + ghost bay in one propagation: the rows show sort(values) of the FINAL "
                "state of the instant (a stale intermediate tri consumed by the sort module is a violation); the write order itself (views propagated in "
                "channel-index order, all holding the new thread's values first) is checked on the real model_cpu.c / track.c / mux.c with the real cpu_spec.  "
                "Reported, not claimed: TT_GAP (task type alone toggling null/non-null "
                "under an unchanged Task-body subsystem is not re-selected by mux0; informational obligation + end-to-end ovniemu -b "
                "run of test/emu/nosv/pause.c).  Not covered: end-to-end -b runs, the real bay.c (C06-B), PRV emission (C13).  "
                "Trusted: cbmc 6.11 + SAT back end, goto-cc, stable-qsort model, ghost bay c20_ghost_bay.h, typed calloc pools, "
                "union chan_data declared as a struct (all channels are CHAN_SINGLE; c20_common.h)."),
    technique=("bounded symbolic execution of the real C units with CBMC (SAT), inductive steps from concrete pointer topologies, "
               "control/data case split for the muxes, unwinding assertions, native ASan/UBSan replay of counterexamples"),
)

UT = ["stubs/uthash_model"]
NATIVE = ["-Wl,--unresolved-symbols=ignore-all", "-no-pie"]


def obligations(tier, sc):
    obs = []
    quick = tier == "quick"

    # (1) sort_replace, one obligation per array length (exact-size heap object)
    nmax = 6 if quick else 8
    for n in range(1, nmax + 1):
        obs.append(Obligation(
            name="sort_replace_n%d" % n, harness="C20/replace.c",
            defines=["N=%d" % n], native_cflags=NATIVE,
            unwind=n + 2, timeout=900, solver=["--sat-solver", "cadical"],
            desc=dict(functions=["sort_replace"],
                      symbolic="all %d int64 array values (full width, sorted), replaced position 0..%d, new value (any int64), watched value" % (n, n - 1),
                      bound="n = %d rows (exact-size heap object)" % n,
                      out="arrays that are not sorted or do not contain `old` (documented preconditions)",
                      oracle="sorted afterwards; for every watched value w: count_after(w) = count_before(w) - [w==old] + [w==new]; "
                             "old==new must die; no die otherwise; every access inside the n-element object (CBMC pointer checks)",
                      assumptions=["preconditions in the comment of sort_replace: arr sorted, old in arr"])))

    # (2) sort_cb_input: one inductive step of the sort module.  For n >= 3 the query is split by
    # (copied, which input changes) into obligations whose union covers every case (cost only).
    for n in ((1, 2, 3, 4) if quick else (1, 2, 3, 4, 5)):
        if n <= 2:
            splits = [("", [])]
        else:
            splits = [("_first", ["COPIED=0"])] + [("_inc_in%d" % k, ["COPIED=1", "WHICH=%d" % k]) for k in range(n)]
        for suffix, defs in splits:
            obs.append(Obligation(
                name="sort_cb_input_n%d%s" % (n, suffix), harness="C20/cb_input.c",
                defines=["N=%d" % n] + defs, native_cflags=NATIVE, incdirs=UT,
                unwind=n + 2, timeout=900,
                desc=dict(functions=["sort_cb_input", "sort_replace", "cmp_int64", "sort_init", "sort_set_input", "sort_get_output",
                                     "chan_init", "chan_prop_set", "chan_set", "chan_read"],
                          symbolic="copied in {0,1}; all %d per-CPU values (any int64); when copied==0 also the stale sorted[] and the previous "
                                   "output values (null/any int64); dirty flag of every output; which input changes; its new value (null or any int64)"
                                   "%s" % (n, ("; this obligation: " + ", ".join(defs)) if defs else ""),
                          bound="n = %d CPUs, one input change from any state of the invariant" % n,
                          out="double-typed channel values (never produced for the breakdown channels); allocation failure",
                          oracle="independent selection sort: values[which] updated only; sorted == sort(values); copied == 1; output i written exactly once "
                                 "iff its previous value differs from the new i-th smallest value, with that value; unchanged input: nothing written or modified; "
                                 "constructor wiring (registered outputs, callbacks, properties) through recorders",
                          assumptions=["Inv: copied => sorted == sort(values) and output i holds int64(sorted[i]) (re-established by the step: inductive)",
                                       "qsort = stable insertion sort model (stubs/libc_model.h) with the real cmp_int64",
                                       "bay_register/bay_add_cb are recorders (real bay.c is C06-B)",
                                       "calloc of sort_init served from typed zeroed pools"])))

    # (3) breakdown muxes: tri = f(subsystem, task type, idle), full chain mux0 -> tr -> mux1 -> tri
    # through the real connect_cpu/select_tr/select_idle/mux.c, one event from any state of the invariant.
    # Split by write pattern (cost only).  Patterns: 0 none; 1-3 one view; 4,5 ss+tt; 6,7 ss+idle; 8,9 tt+idle;
    # 10-15 all three (12 = tt,ss,idle: the order in which the CPU tracking muxes write the views at a thread switch).
    # groups: (name, pattern mask, split by subsystem class of the state?)
    groups = [("single", 0x000f, False), ("ss_tt", 0x0030, False), ("cpu_switch", 0x1000, True)]
    if not quick:
        groups += [("ss_idle", 0x00c0, True), ("tt_idle", 0x0300, False)] + \
                  [("all3_p%d" % p, 1 << p, True) for p in (10, 11, 13, 14, 15)]
    for model, mdef in (("nosv", []), ("nanos6", ["MODEL_NANOS6"])):
        sdesc = dict(
            functions=["%s/breakdown.c: create_cpu, connect_cpu, select_tr, select_idle" % model,
                       "mux.c: mux_init, mux_set_input, mux_set_default, mux_get_input, cb_select, cb_input, select_input",
                       "chan.c: chan_init, chan_prop_set, chan_set, chan_read, chan_flush"],
            symbolic="state: subsystem in {null, Task body, other}, task type null or ANY int64, idle in {null, Progressing, other}, "
                     "or the constructed (never written) state; event: any subset of {subsystem, task type, idle} written in any order "
                     "(patterns of this obligation), new values from the same classes, task type ANY int64",
            bound="one CPU, one event (one bay propagation) from any state of the invariant; 'other' = one representative per use "
                  "(k+1 before the event, 2^32+k written by the event, k = the constant the select function compares with)",
            out="TT_GAP: task type alone toggling null/non-null while the subsystem stays Task body (informational obligation shows it); "
                "histories in which only one of subsystem/idle was ever written; emit phase / PRV output (C13); the real bay.c (C06)",
            oracle="tr = (ss == Task body and tt != null) ? tt : (ss != null ? ss : UNKNOWN_SS); tri = (idle == Progressing) ? tr : idle; "
                   "null before the first write of the select channel; mux.selected / enabled callbacks match the rule; everything clean and flushed",
            assumptions=["ghost patch bay harness/C20/c20_ghost_bay.h (dirty list in order of becoming dirty, live callback lists as bay.c's utlist walk, flush at the end)",
                         "the CPU tracking muxes write all three views at the CPU's first thread switch and none before (C06)",
                         "CPU view channels are single channels with DIRTY_WRITE and ALLOW_DUP (mux outputs)",
                         "calloc of mux_init served from a typed zeroed pool"])
        for gname, mask, split in groups:
            for sscls in ((0, 1, 2) if split else (None,)):
                obs.append(Obligation(
                    name="select_%s_%s%s" % (model, gname, "" if sscls is None else "_ss%d" % sscls), harness="C20/select.c",
                    defines=mdef + ["PATMASK=0x%04x" % mask] + ([] if sscls is None else ["SSCLS=%d" % sscls]),
                    native_cflags=NATIVE, incdirs=UT,
                    unwind=6, timeout=1200, extra=["--object-bits", "12"],
                    desc=dict(sdesc, patterns="0x%04x" % mask,
                              state_split="all subsystem classes" if sscls is None else "subsystem class %d of (0 null/constructed, 1 Task body, 2 other)" % sscls)))
        obs.append(Obligation(
            name="select_%s_tt_gap_info" % model, harness="C20/select.c",
            defines=mdef + ["PATMASK=0x0004", "SHOW_TT_GAP"], native_cflags=NATIVE, incdirs=UT,
            unwind=6, timeout=600, extra=["--object-bits", "12"], info_only=True, witness=False,
            desc=dict(sdesc, patterns="0x0004, restricted to TT_GAP",
                      note="informational: expected to FAIL; shows that mux0 is not re-selected when only the task type toggles "
                           "null/non-null while the subsystem stays Task body")))

    # (5) the chain END TO END for one event in which the running thread of the CPU changes: views -> mux0 -> tr -> mux1 -> tri ->
    # sort input -> rows, the three views written in the order of the REAL enum <model>_chan (= the order in which the CPU
    # tracking muxes, attached to the CPU's running-thread channel in channel-index order by model_cpu.c, dirty them).
    # quick: one row (the CPU under test), split by the subsystem class of the state; thorough adds two rows (another CPU with any
    # value), split by the (subsystem, task type, idle) class cell of the state (the sort of symbolic int64 values needs the solver).
    cells = [(1, "ss%d" % a, ["SSCLS=%d" % a], "subsystem class %d of (0 null incl. the CPU that never ran a thread, 1 Task body, 2 other)" % a) for a in (0, 1, 2)]
    if not quick:
        cells += [(2, "2cpu_s%d%d%d" % (a, b, c), ["SSCLS=%d" % a, "TTCLS=%d" % b, "IDLECLS=%d" % c],
                   "subsystem class %d, task type %s, idle class %d (0 null, 1 the compared constant, 2 other)" % (a, "set" if b else "null", c))
                  for a in (0, 1, 2) for b in (0, 1) for c in (0, 1, 2)]
    for model, mdef in (("nosv", []), ("nanos6", ["MODEL_NANOS6"])):
        for ncpu, cname, cdefs, ctext in cells:
            obs.append(Obligation(
                name="chain_to_sort_%s_%s" % (model, cname), harness="C20/chain.c",
                defines=mdef + ["NCPU=%d" % ncpu] + cdefs, native_cflags=NATIVE, incdirs=UT,
                unwind=9, timeout=1200 if ncpu == 1 else 2400, extra=["--object-bits", "12"],
                solver=[] if ncpu == 1 else ["--sat-solver", "cadical"],
                desc=dict(functions=["%s/breakdown.c: create_cpu, connect_cpu, select_tr, select_idle" % model,
                                     "mux.c: mux_init, mux_set_input, mux_set_default, mux_get_input, cb_select, cb_input, select_input",
                                     "sort.c: sort_init, sort_set_input, sort_get_output, sort_cb_input, sort_replace, cmp_int64",
                                     "chan.c: chan_init, chan_prop_set, chan_set, chan_read, chan_flush"],
                          symbolic="views before the event (channels of the old running thread) and after it (channels of the new running thread): "
                                   "subsystem in {null, Task body, other}, task type null or ANY int64, idle in {null, Progressing, other}, equal to the old "
                                   "ones or not; the CPU never ran a thread / ran one; the sort module untouched / incremental; the other CPU's value (any int64)",
                          bound=("one CPU under test (1 row), " if ncpu == 1 else "one CPU under test + one other CPU (2 rows), ") +
                                "one event = one bay propagation in which the CPU's running thread changes: "
                                "all three views are written, in the order of their index in the real enum %s_chan; 'other' = one representative per use "
                                "(k+1 before the event; 2^32+k or the unchanged k+1 written by the event)" % model,
                          state_split=ctext,
                          out="events of the running thread itself (subsets of the views written in the order of the model's event code: tri by select_*, "
                              "one sort step by sort_cb_input_*); states reached through TT_GAP; two CPUs changing in the same instant; "
                              "a non-null breakdown value 0 with the sort module untouched; emit phase / PRV output (C13); the real bay.c (C06)",
                          oracle="rows after the propagation = sort({v, other}), v = idle if idle != Progressing else task type if Task body with a task else subsystem "
                                 "else Unknown subsystem, computed from the NEW views (final state of the instant, never an intermediate one); tri = v; "
                                 "sort.values / sorted / copied consistent; rows untouched when v did not change; everything clean and flushed",
                          assumptions=["ghost patch bay harness/C20/c20_ghost_bay.h (dirty list in order of becoming dirty, live callback lists as bay.c's utlist walk, flush at the end)",
                                       "the CPU tracking muxes dirty the views of a CPU in channel-index order when its running thread changes "
                                       "(model_cpu.c connect_cpu attaches them to the running-thread channel for i = 0..CH_MAX-1; cb_select always writes its output); "
                                       "the harness iterates the real enum",
                                       "Inv of select_* for the two muxes (proved inductive there); sort Inv of sort_cb_input_*",
                                       "sort outputs are leaf channels of the ghost bay (no dirty callbacks)",
                                       "qsort = stable insertion sort model (stubs/libc_model.h) with the real cmp_int64",
                                       "calloc of mux_init / sort_init served from typed zeroed pools"])))

    # (5b) the order assumed by (5), produced by the real model_cpu.c / track.c / mux.c with the real cpu_spec of the model
    for model, mdef in (("nosv", []), ("nanos6", ["MODEL_NANOS6"])):
        obs.append(Obligation(
            name="view_order_%s" % model, harness="C20/view_order.c",
            defines=mdef, native_cflags=NATIVE, incdirs=UT,
            unwind=26, timeout=900, extra=["--object-bits", "12"],
            desc=dict(functions=["model_cpu.c: model_cpu_create, model_cpu_connect, init_cpu, init_chan, connect_cpu",
                                 "track.c: track_init, track_set_select, track_set_input", "mux.c: mux_init, mux_set_input, cb_select, cb_input, default_select",
                                 "chan.c: chan_init, chan_set, chan_read, chan_flush", "extend.c", "%s/setup.c: the static tables cpu_spec / cpu_chan / cpu_track" % model],
                      symbolic="the values (null or any int64) of all CH_MAX per-model channels of two threads",
                      bound="one CPU, two threads, three consecutive events with concrete control: no thread -> thread 0 -> thread 1 -> no thread",
                      out="other models' callbacks on the same running-thread channel (they do not touch this model's views); stack-typed thread channels "
                          "(the tracking muxes only chan_read() them); more than two threads; the real bay.c (C06)",
                      oracle="a recorder dirty callback on every view: the views are propagated once each, in the order of their channel index 0..CH_MAX-1 "
                             "(= the enumerators of enum %s_chan); when the first one is propagated all of them already hold their final value; view i = channel i "
                             "of the new running thread, null without one; subsystem / task type / idle are three distinct tracks" % model,
                      assumptions=["ghost patch bay harness/C20/c20_ghost_bay.h (dirty list in order of becoming dirty, live callback lists as bay.c's utlist walk, flush at the end)",
                                   "model_pvt_connect_cpu is a no-op (PRV wiring, C13); cpu_get_th_chan is cpu.c's accessor",
                                   "calloc of init_cpu / init_chan / mux_init served from typed zeroed pools"])))

    # (4) wiring recorder: create + connect of the breakdown view on a small system
    for model, mdef in (("nosv", []), ("nanos6", ["MODEL_NANOS6"])):
        for vmask in (0x14, 0x05):
            obs.append(Obligation(
                name="wiring_%s_v%02x" % (model, vmask), harness="C20/wiring.c",
                defines=mdef + ["NCPU=5", "VMASK=0x%02x" % vmask], native_cflags=NATIVE, incdirs=UT,
                unwind=32, timeout=600, extra=["--object-bits", "12"],
                desc=dict(functions=["model_%s_breakdown_create" % model, "model_%s_breakdown_connect" % model, "create_cpu", "connect_cpu",
                                     "sort_init", "sort_set_input", "sort_get_output", "mux_init", "mux_set_input", "mux_set_default", "extend_get"],
                          symbolic="the -b switch (args.breakdown), the gindex of every CPU",
                          bound="5 CPUs in the global list, virtual CPUs (one per loom) at the positions of bit mask 0x%02x; concrete topology" % vmask,
                          out="thread metadata gate nosv.can_breakdown (no threads in the system); label files (finish); other CPU counts",
                          oracle="rows = ncpus - nlooms = #physical CPUs; the tri of every physical CPU feeds exactly one sort input (bijection) through one enabled "
                                 "sort_cb_input callback bound to that input; Paraver row i = sort output i, type PRV_<model>_BREAKDOWN, flags SKIPDUP|ZERO; mux0/mux1 of each "
                                 "physical CPU wired as breakdown.h documents; virtual CPUs get nothing; without -b nothing is created",
                          assumptions=["recorder_add_pvt / pvt_get_prv / prv_register are recorders", "ghost bay used as a registry"])))
    return obs
