import os, re
from vp.core import Obligation, REPO

FUNCS = ["ovni_proc_init", "create_proc_dir", "mkdir_proc", "ovni_thread_init", "create_thread_dir", "mkdir_thread",
         "create_trace_stream", "write_stream_header", "thread_metadata_init", "thread_metadata_populate",
         "thread_metadata_store", "ovni_thread_require", "version_parse", "ovni_flush", "flush_evbuf", "write_evbuf", "ovni_ev_add",
         "ovni_attr_flush", "ovni_thread_free", "move_thdir_to_final", "move_thread_to_final", "try_clean_dir",
         "ovni_proc_fini", "mkpath", "mkdir_if_need", "json_serialize_to_file_pretty"]

def extract_function(path, name):
    """Text of a top-level C function definition `name` (K&R-style return type on the previous line)."""
    src = open(path).read()
    m = re.search(r"^[A-Za-z_][A-Za-z0-9_ \*]*\n" + re.escape(name) + r"\([^)]*\)\n\{", src, flags=re.M)
    if not m:
        raise RuntimeError("cannot find %s in %s" % (name, path))
    i = src.index("{", m.start())
    depth = 0
    for j in range(i, len(src)):
        if src[j] == "{": depth += 1
        elif src[j] == "}":
            depth -= 1
            if depth == 0:
                return src[m.start():j + 1] + "\n"
    raise RuntimeError("unbalanced braces")

def gen_parson(sc):
    txt = extract_function(os.path.join(REPO, "src/parson.c"), "json_serialize_to_file_pretty")
    open(os.path.join(sc.gen, "gen_parson_file.inc"), "w").write(
        "/* extracted verbatim from src/parson.c on this run */\n" + txt)

def count_slots(sc, tmp, jf):
    """Native dry run of the fault-free harness: number of system-call slots of the run.
    (The ghosts consume a fixed number of slots per call, so the count is input independent.)"""
    import subprocess
    from vp.core import include_flags, VERIF
    wd = sc.sub("count_%d_%s" % (tmp, jf))
    tu = os.path.join(wd, "count.c")
    open(tu, "w").write('#include "%s"\nvoid replay_load(void) { IN.n1 = 750; IN.n2 = 450; IN.fs.ev_at = 1000000; }\n'
                        'int main(void) { harness(); return 0; }\n' % os.path.join(VERIF, "harness/C09/fs_run.c"))
    exe = os.path.join(wd, "count.exe")
    defs = ["-DREPLAY", "-DCOUNT_STEPS", "-DATTR_FLUSH=1", "-DGFS_MODE=0", "-DGFS_TMPDIR=%d" % tmp, "-DGFS_BENIGN_SHORT=0"] + \
           (["-DGFS_JSON_FIRST=%d" % jf] if tmp else [])
    cmd = ["gcc", "-std=gnu11", "-w", "-O0"] + include_flags(sc.gen) + defs + [tu, os.path.join(REPO, "src/parson.c"),
           "-Wl,--allow-multiple-definition", "-o", exe, "-lm"]
    r = subprocess.run(cmd, capture_output=True, text=True)
    if r.returncode != 0:
        raise RuntimeError("count_slots build failed: " + r.stderr[-2000:])
    r = subprocess.run([exe], capture_output=True, text=True)
    m = re.search(r"STEPS=(\d+)", r.stderr)
    m2 = re.search(r"FREE_AT=(\d+)", r.stderr)
    if not m or not m2:
        raise RuntimeError("count_slots run failed: " + (r.stdout + r.stderr)[-2000:])
    names = {int(a): b for a, b in re.findall(r"slot (\d+): (\w+)", r.stderr)}
    return int(m.group(1)), int(m2.group(1)), names

def fs_obligations(mode, tier, sc):
    gen_parson(sc)
    obs = []
    mname = {1: "crash", 2: "fault"}[mode]
    nmax = 600 if tier == "quick" else 1500
    cfgs = ((0, None), (1, 1)) if tier == "quick" else ((0, None), (1, 1), (1, 0))
    for tmp, jf in cfgs:
      nslots, free_at, names = count_slots(sc, tmp, jf)
      # relocation copy phase = slots after opendir up to the last remove()
      opend = [k for k, n in names.items() if n == "v_opendir"]
      rems = [k for k, n in names.items() if n == "v_remove"]
      copy_phase = range(opend[0] + 1, rems[-1] + 1) if (opend and rems) else range(0)
      # one obligation per system-call slot (concrete K keeps every path string constant for symex);
      # K == nslots is the event-free run.  Faults inside ovni_thread_free() in relocation mode do not
      # abort: to keep the directory listing and the path strings concrete there, the fault kind and
      # the stdio buffering policy are enumerated too (2 x 2 obligations per slot).
      for k in range(nslots + 1):
       variants = [[]]
       if mode == 2 and tmp and k < nslots and (k >= free_at or names.get(k) == "v_write"):
           # A fault inside ovni_thread_free() in relocation mode does not abort.  What follows only stays
           # tractable if the system-call index, the directory listing and the path strings stay concrete
           # for symex, so fault kind and stdio buffering policy are enumerated (2 x 2 obligations per slot)
           # and the byte counts are fixed; the fully symbolic version of the copy itself is the unit
           # obligation fault_move_unit_{obs,json}.
           variants = [["GFS_FAULT_KIND=%d" % fk, "GFS_DRAIN_POLICY=%d" % dp, "GFS_SHORT_LEN=1"] for fk in (0, 1, 2) for dp in (0, 1)]
       for var in variants:
        vname = "".join("_" + v.split("_")[1][0].lower() + v[-1] for v in var if v.startswith(("GFS_FAULT_KIND", "GFS_DRAIN_POLICY")))
        obs.append(Obligation(
            name="%s_%s_k%02d%s" % (mname, ("tmpdir_json%s" % ("first" if jf else "last")) if tmp else "direct", k, vname), harness="C09/fs_run.c",
            defines=["GFS_MODE=%d" % mode, "GFS_TMPDIR=%d" % tmp, "GFS_EV_AT=%d" % k, "GFS_BENIGN_SHORT=0"] + (["GFS_JSON_FIRST=%d" % jf] if tmp else []) + (["EXPECT_EVENT=%d" % (1 if k < nslots else 0), "ATTR_FLUSH=1"]) + (["CONCRETE_SIZES"] if (mode == 2 or tmp) else []) + (["GFS_NO_SYMBOLIC_EINTR"] if (tmp and not var) else []) + var,
            unwind=70, unwindset=["ovni_ev_add:3", "add_flush_events:3", "write_evbuf.0:5", "move_thread_to_final.0:5",
                                  "move_thdir_to_final.0:4", "move_thdir_to_final.1:5", "v_readdir.0:4"],
            native_srcs=["src/parson.c"], native_cflags=["-Wl,--allow-multiple-definition"],
            extra=["--object-bits", "10"],
            timeout=600, mem_gb=16,
            desc=dict(functions=FUNCS,
                      symbolic="(K = index of the system-call slot that is hit is ENUMERATED by the driver: one obligation per slot, %d slots counted by a native dry run of the real code) fault kind (error with the call's typical errno / error with EINTR / short transfer, short length), " % nslots +
                               "directory enumeration order (one obligation per order), which fwrite/fputs drain the stdio buffer, short-write splits of the stream, "
                               "buffered byte counts n1 in [700,800), n2 in [400,500) (symbolic in direct kill-point mode; fixed to 750/450 in the enumerated relocation and fault obligations so that loop trip counts stay concrete), whether ovni_attr_flush is called",
                      bound="one process, one thread, loom 'l', pid 1, tid 1, OVNI_TRACEDIR unset, OVNI_TMPDIR %s; run = proc_init, thread_init, flush, [attr_flush], flush, thread_free, proc_fini; "
                            "single %s per run" % ("= /t" if tmp else "unset", "kill point" if mode == 1 else "failing call"),
                      out="power loss / page-cache ordering; two simultaneous faults; malloc failure; file contents (lengths and the finished flag are tracked, sequential writing is C01); "
                          "several threads relocating at once",
                      oracle=("at the kill point and at the end: a complete stream.json with finished=1 under the trace directory implies stream.obs there holds every byte for which write() returned"
                              if mode == 1 else
                              "at every normal API return and every die(): a complete stream.obs still exists; remove() never deleted the only complete copy; die only after the fault; "
                              "a run that returns normally leaves a complete finished stream"),
                      assumptions=["a returned write()/fwrite-drain is visible to later opens (kill, not power loss)",
                                   "the emulator accepts a stream only if its stream.json parses completely and has ovni.finished == 1 (checked on emulator code in C12)",
                                   "stdio buffers reach the file at arbitrary times but at the latest at fclose",
                                   "parson document content abstracted to the finished flag; json_serialize_to_file_pretty is the real text"])))
    return obs


def move_unit_obligations(mode, tier, sc):
    gen_parson(sc)
    obs = []
    mname = {1: "crash", 2: "fault"}[mode]
    for which, fname in ((0, "obs"), (1, "json")):
        obs.append(Obligation(
            name="%s_move_unit_%s" % (mname, fname), harness="C09/move_unit.c",
            defines=["GFS_MODE=%d" % mode, "GFS_TMPDIR=1", "WHICH=%d" % which],
            unwind=70, unwindset=["move_thread_to_final.0:5"],
            native_srcs=["src/parson.c"], native_cflags=["-Wl,--allow-multiple-definition"],
            extra=["--object-bits", "10"], timeout=600, mem_gb=16,
            desc=dict(functions=["move_thread_to_final"],
                      symbolic="index K of the system call that is hit inside the move (kill point or failing call), fault kind (error with the call's typical errno / error with EINTR / short transfer, short length), "
                               "which fwrite drains the stdio buffer, source length 8..2500 bytes (stream.obs) / finished flag (stream.json)",
                      bound="one file moved from the temporary to the final thread directory; <=3 chunks of 1 KiB; single event",
                      out="the loop of move_thdir_to_final around it (full-run obligations)",
                      oracle="ret==0 => destination complete and source gone; ret!=0 => error reported and source still complete; at every kill point / return: a complete copy exists; "
                             "the only complete copy is never removed",
                      assumptions=["ghost file system + stdio of stubs/ghostfs.h", "a returned write is visible to later opens"])))
    return obs
