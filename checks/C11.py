import os, re
from vp.core import Obligation, REPO
from checks.fs_common import gen_parson

LEVEL_TEXT = ("C11: thread-modular (rely/guarantee) verification of the real runtime: under arbitrary interference of other threads on the "
              "process state, init/fini take effect exactly once, process data is only touched by the INIT owner or after READY was observed, "
              "and per-thread API calls leave the shared process data bit-identical.")

MANIFEST = dict(
    level_text=LEVEL_TEXT,
    technique="bounded symbolic execution with CBMC of each API function against an interference-injecting model of the atomics (thread-modular rely/guarantee), unwinding assertions, native replay",
    level_note="Trusted: soundness of thread-modular reasoning for sequentially consistent atomics (C11 atomic_load/store/compare_exchange default to seq_cst); "
               "the environment performs at most 3 state transitions per interference point (the state graph UNINIT->INIT->READY->GONE has length 3, so this is complete); "
               "races inside libc/parson and true concurrent executions are outside the claim (CBMC 6.11 rejects pointers under __CPROVER_ASYNC).")

APIS = {0: "proc_init", 1: "proc_fini", 2: "thread_init", 3: "add_cpu", 4: "proc_set_rank", 5: "flush", 6: "ev_emit",
        7: "thread_require", 8: "thread_free", 9: "attr_flush"}

def gen_ovni(sc):
    """src/rt/ovni.c with the single definition line of `rproc` rewritten so that every access goes through v_rp()."""
    src = open(os.path.join(REPO, "src/rt/ovni.c")).read()
    line = "struct ovni_rproc rproc = {0};\n"
    if src.count(line) != 1:
        raise RuntimeError("cannot find the unique definition of rproc in src/rt/ovni.c")
    src = src.replace(line, "struct ovni_rproc rproc_real = {0};\n#define rproc (*(v_rp_check(), &rproc_real))\n")
    # all atomic accesses must name &rproc.st (the harness macros do not evaluate their pointer argument)
    for m in re.finditer(r"atomic_(load|store|compare_exchange_strong)\(\s*([^,)]+)", src):
        if m.group(2).strip() != "&rproc.st":
            raise RuntimeError("atomic access on something else than &rproc.st: %s" % m.group(0))
    # function-scope objects with static storage duration: every thread shares them.  A call is planted right
    # after each such declaration; reaching it from a per-thread API function is a violation (tm.c).
    def plant(m):
        return m.group(0) + ' v_static_used("%s");' % m.group(0).strip().replace('"', "'")
    src = re.sub(r"^[ \t]+static[ \t]+(?!const\b)[^;(){}]*;", plant, src, flags=re.M)
    if re.search(r"_Thread_local struct ovni_rthread rthread", src) is None:
        raise RuntimeError("rthread is no longer _Thread_local: the isolation argument of C11 does not apply")
    # other file-scope mutable objects would be shared between threads
    open(os.path.join(sc.gen, "gen_ovni_rproc.c"), "w").write("/* generated from src/rt/ovni.c on this run */\n" + src)

def shared_statics():
    """Objects with static storage duration in the runtime units other than rproc/rthread: file-scope
    objects of ovni.c and `static` locals of ovni.c, common.c and version.h.  Any of them would be shared
    by all threads of the process, which breaks the isolation argument of C11 (the known, read-mostly
    globals of common.c - progname, is_debug_enabled - are only written by the emulator tools)."""
    out = []
    for f, file_scope in (("src/rt/ovni.c", True), ("src/common.c", False), ("src/include/version.h", False)):
        src = re.sub(r"/\*.*?\*/", "", open(os.path.join(REPO, f)).read(), flags=re.S)
        depth = 0
        for ln in src.splitlines():
            if depth == 0 and file_scope and "(" not in ln and re.match(
                    r"^(static\s+)?(struct\s+\w+|char|int|long|size_t|uint\w+|FILE|JSON_\w+)\s*\*?\s*\w+(\[[^\]]*\])?\s*(=|;)", ln):
                if "rproc" not in ln and "rthread" not in ln:
                    out.append("%s: %s" % (f, ln.strip()))
            # function-scope statics (mutable: `static const` tables are fine); those of ovni.c itself are
            # handled by the planted v_static_used() solver obligation (gen_ovni), not by this guard
            if depth > 0 and not file_scope and re.match(r"^\s+static\s+(?!const\b)", ln) and "(" not in ln.split("=")[0]:
                out.append("%s: %s" % (f, ln.strip()))
            depth += ln.count("{") - ln.count("}")
    return out

def obligations(tier, sc):
    gen_parson(sc)
    gen_ovni(sc)
    sh = shared_statics()
    if sh:
        raise RuntimeError("objects with static storage duration in the runtime would be shared between threads; C11's frame argument must be revisited: %r" % sh)
    obs = []
    for api, name, tmp in [(a, n, 0) for a, n in APIS.items()] + [(8, "thread_free_tmpdir", 1), (1, "proc_fini_tmpdir", 1)]:
        obs.append(Obligation(
            name="tm_%s" % name, harness="C11/tm.c", defines=["API=%d" % api, "GFS_MODE=0", "GFS_TMPDIR=%d" % tmp, "GFS_BENIGN_SHORT=0"] + (["GFS_JSON_FIRST=1", "GFS_DRAIN_POLICY=0"] if tmp else []),
            unwind=70, unwindset=["ovni_ev_add:3", "add_flush_events:3", "write_evbuf.0:5", "env_interfere.0:4", "snapshot.0:500", "unchanged.0:500", "move_thread_to_final.0:5",
                                  "move_thdir_to_final.0:4", "move_thdir_to_final.1:5", "v_readdir.0:4"],
            native_srcs=["src/parson.c"], native_cflags=["-Wl,--allow-multiple-definition"],
            extra=["--object-bits", "10"], timeout=900, mem_gb=16,
            desc=dict(functions=["ovni_" + name, "(callees in src/rt/ovni.c, src/common.c)"],
                      symbolic="process state before the call (UNINIT/INIT/READY/GONE), whether an environment thread owns INIT, up to 3 environment transitions before and after "
                               "EVERY atomic access of the thread (any interleaving of any number of other threads' init/fini/initialisation writes), garbage written to the process "
                               "data by an initialising thread, rthread.ready, API arguments, buffer fill level",
                      bound="one API call of one thread from an arbitrary state; <=16 atomic accesses per call; 3 environment transitions per interference point (complete: the state graph has length 3)",
                      out="true concurrent executions and weak-memory effects; data races inside libc/parson; malloc arena sharing",
                      oracle="own writes to the state are guarantee transitions; normal return from init/fini only for the compare-exchange winner; non-atomic process data touched only by the INIT owner "
                             "or after observing READY; process data bit-identical after every per-thread call",
                      assumptions=["seq_cst atomics; thread-modular reasoning", "rthread is _Thread_local (checked on every run)", "no other object with static storage duration (file scope or static local) in ovni.c/common.c/version.h (checked on every run)",
                                   "ghost file system of stubs/ghostfs.h, fault free"])))
    return obs
