import os
from vp.core import Obligation

LEVEL_TEXT = ("C15: bounded symbolic proof that the loom/process/thread/CPU merge of stream metadata and the resulting "
              "order and global indices depend only on the union of the metadata, and that contradictions are refused with -1.")

MANIFEST = dict(
    level_text=("Bounded symbolic verification (CBMC 6.11, SAT) of the real metadata-merge code of the emulator (system.c, loom.c, proc.c, "
                "thread.c, cpu.c): for ALL values of the stream metadata inside small bounds (<=3 thread streams, <=2 looms, <=3 processes, "
                "<=2 CPU entries per stream, identifiers in small ranges, app id/rank/nranks of one process over the full 32-bit range) the "
                "merged hierarchy, its order and all rows (gindex) equal an order-free reference computed from the union of the metadata, "
                "and every contradiction class of the statement yields -1 without any pointer failure or die()."),
    level_note=("Decomposed: (a) loom_cpus merge of one loom in every presentation order; (b) app_id/rank/nranks merge of one process in every "
                "order; (c) create_system over 3 fully symbolic streams (all thread->process->loom assignments, all distributions, all "
                "enumeration orders); (d) sort + global lists + gindex + final checks from any created hierarchy (concrete shapes up to "
                "2 looms or 2-3 processes/threads/CPUs, symbolic identifiers = all insertion orders); (e) whole system_init on 1 stream. "
                "Not one end-to-end query: 2 streams through the whole system_init do not finish (symex > 300 s). Trusted: cbmc + SAT back "
                "end, goto-cc, ghost parson getters (stubs/vjson.h, differentially tested against real parson), uthash list model, libc "
                "shadows of harness/C15/c15_units.h. Known finding D3 (loom.c load_cpus -> loom_get_cpu before cpus_array exists: NULL "
                "dereference for CPU lists not in index order) is was fixed in /repo (commit 1df82c9); the obligations run unguarded; two "
                "processes with the same rank (not refused, order then depends on enumeration order) and a lone ovni.nranks (ignored) "
                "are outside the claim."),
    technique=("bounded symbolic execution of the real C units with CBMC (SAT), unwinding assertions, reachability witnesses, native "
               "ASan/UBSan replay of counterexamples; configurations of the concrete pointer topology enumerated by the driver"),
)

# Suspected defect D3 (loom.c:load_cpus -> loom_get_cpu() before cpus_array exists): while it is
# open the obligations that merge CPU lists exclude its signature (-DKF_D3) and a confirmation
# query (-DKF_D3_ONLY, expect_fail) shows it still reproduces.  Set to False once /repo is fixed
# (or run with C15_NO_KF_D3=1 to see the unguarded verdict).
KF_D3 = bool(os.environ.get("C15_KF_D3"))   # D3 is fixed in /repo (commit 1df82c9): guard off

# (looms, processes per loom, threads per process, CPUs per loom, swap of the two loom names)
# two looms cost ~200 s / 7.5 GB each (every later loop runs over a symbolic loom pointer); larger 2-loom shapes run out of memory
ORDER_CFGS = {
    "quick": [(2, 1, 1, 1, 0), (1, 2, 1, 1, 0), (1, 1, 2, 1, 0), (1, 1, 1, 2, 0), (1, 1, 1, 0, 0)],
    "thorough": [(2, 1, 1, 1, 0), (2, 1, 1, 1, 1), (1, 2, 1, 1, 0), (1, 1, 2, 1, 0), (1, 1, 1, 2, 0), (1, 1, 1, 0, 0),
                 (1, 2, 2, 2, 0), (1, 3, 1, 1, 0), (1, 1, 3, 1, 0), (1, 1, 1, 3, 0)],
}

UTHASH = ["stubs/uthash_model"]
GC = ["-ffunction-sections", "-fdata-sections", "-Wl,--gc-sections"]  # native replay: unreferenced emulator code is dropped at link time
VJ_ASSUME = "parson getters replaced by the ghost document model stubs/vjson.h (differentially tested against real parson by bin/selftest)"
UT_ASSUME = "uthash replaced by the insertion-ordered list model stubs/uthash_model (HASH_SORT = stable sort by the real comparator)"


def obligations(tier, sc):
    obs = []
    kf = ["KF_D3"] if KF_D3 else []
    loom_srcs = ["src/emu/stream.c", "src/emu/path.c", "src/emu/cpu.c", "src/emu/proc.c", "src/emu/thread.c"]
    loom_desc = dict(
        functions=["loom_init_begin", "loom_load_metadata", "load_cpus", "loom_find_cpu", "loom_get_cpu", "loom_add_cpu",
                   "loom_add_proc", "by_phyid (HASH_SORT)", "loom_init_end", "cpu_init_begin", "stream_metadata"],
        oracle="independent reference that is a function of the UNION of all (index,phyid) entries only (never of the order): refused "
               "iff an index has two phyids, a phyid two indices, no CPU, or an index >= number of CPUs; on accept the loom holds exactly "
               "the union ordered by phyid with a consistent index table; asserted for EVERY presentation order, hence order- and "
               "distribution-independent; no pointer failure / die / other return value for any input incl. ill-typed records",
        out="more entries per record / more records than the bound; values outside [-1,3] (the logic is comparison-only); calloc failure",
        assumptions=[VJ_ASSUME, UT_ASSUME] + (["known finding D3 excluded by signature (-DKF_D3): an entry with a new phyid whose index is "
                                               "smaller than the number of CPUs already merged, in either presentation order"] if KF_D3 else []))
    loom_unwind = ["load_cpus.0:3", "loom_find_cpu.0:%d", "loom_find_cpu.1:%d", "loom_add_cpu.0:%d", "loom_add_cpu.1:%d",
                   "run.0:%d", "run.1:%d", "run.2:%d", "run.3:%d", "run.4:%d", "loom_init_end.0:%d"]

    def loom_ob(name, nrec, ill, extra_defs, nent=2, **kw):
        ncpu = nent * nrec + 1
        return Obligation(
            name=name, harness="C15/loom_cpus.c", defines=["NREC=%d" % nrec, "NENT=%d" % nent, "ILL=%d" % ill] + extra_defs,
            srcs=loom_srcs, incdirs=UTHASH, native_cflags=GC, unwind=12,
            unwindset=[("load_cpus.0:%d" % (nent + 1)) if u.startswith("load_cpus") else (u % ncpu if "%d" in u else u) for u in loom_unwind],
            timeout=1500,
            desc=dict(loom_desc,
                      symbolic="%d loom_cpus records: absent / array%s, 0-%d entries each%s, index and phyid in [-1,3]; "
                               "presentation order = any permutation of the records" % (
                                   nrec, " / wrong type" if ill else "", nent,
                                   ", entry object or not, index / phyid key present or not" if ill else ""),
                      bound="%d records x <=%d entries, all %d presentation orders" % (nrec, nent, (1, 2, 6)[nrec - 1])), **kw)

    obs.append(loom_ob("loom_cpus_merge", 2, 1, kf))
    if tier == "thorough":
        # 3 records x 2 entries does not finish in 1500 s; 3 threads each listing at most one CPU does
        obs.append(loom_ob("loom_cpus_merge_3rec_1entry", 3, 0, kf, nent=1))
    if KF_D3:
        obs.append(loom_ob("loom_cpus_merge_D3_confirm", 2, 0, ["KF_D3_ONLY"], expect_fail=True, witness=False))

    # ---- (b) per-process attributes -------------------------------------------------------------------
    proc_srcs = ["src/emu/stream.c", "src/emu/path.c", "src/emu/thread.c"]
    proc_desc = dict(
        functions=["proc_init_begin", "proc_load_metadata", "load_appid", "load_rank", "proc_set_gindex", "proc_init_end", "stream_metadata"],
        oracle="independent reference that is a function of the UNION of the attribute values only: refused iff app id missing in all "
               "threads, app id <= 0, two app ids, rank < 0, rank without nranks, nranks <= 0, rank >= nranks, two ranks or two rank "
               "counts; on accept proc.appid/rank/nranks are the common values; asserted for every presentation order",
        out="pid lookup and thread creation (system_* obligations); non-integral / out-of-int-range JSON numbers; a thread carrying "
            "ovni.nranks without ovni.rank (informational query proc_meta_lone_nranks)",
        assumptions=[VJ_ASSUME])

    def proc_ob(name, nrec, ill, extra_defs, **kw):
        return Obligation(
            name=name, harness="C15/proc_meta.c", defines=["NREC=%d" % nrec, "ILL=%d" % ill] + extra_defs,
            srcs=proc_srcs, incdirs=UTHASH, native_cflags=GC, unwind=12, timeout=900,
            desc=dict(proc_desc,
                      symbolic="%d thread streams of one process: app_id / rank / nranks each absent or present%s with ANY 32-bit value; "
                               "presentation order = any permutation" % (nrec, " (number or string)" if ill else ""),
                      bound="%d threads per process, all %d orders" % (nrec, (1, 2, 6)[nrec - 1])), **kw)

    obs.append(proc_ob("proc_meta_merge", 2 if tier == "quick" else 3, 1, []))
    obs.append(proc_ob("proc_meta_lone_nranks", 2, 0, ["LONE_NRANKS"], info_only=True, witness=False))

    # ---- (d) + merge part of (c): create_system over a small trace ---------------------------------------
    sys_srcs = ["src/emu/stream.c", "src/emu/path.c", "src/emu/clkoff.c"]
    sys_units = ["system.c", "loom.c", "proc.c", "thread.c", "cpu.c", "chan.c (all #included in the harness TU)"]
    SYS_ASSUME = ("libc shadows of harness/C15/c15_units.h: numeric printf conversions print '#', malloc/calloc never fail, "
                  "fopen(clock-offsets.txt) = ENOENT, chan_init of thread/CPU channels is a no-op, HASH_FIND_INT compares ints")

    def create_ob(name, ns, nc, extra_defs, **kw):
        n1 = ns + 1
        ncpu = ns * nc + 1
        us = ["strcmp.0:8", "create_system.0:%d" % n1, "find_loom.0:3", "create_loom.0:3", "load_cpus.0:%d" % (nc + 1)]
        for f, b in (("loom_find_proc", n1), ("proc_find_thread", n1), ("proc_add_thread", n1), ("loom_add_proc", n1),
                     ("loom_find_cpu", ncpu), ("loom_add_cpu", ncpu)):
            us += ["%s.0:%d" % (f, b), "%s.1:%d" % (f, b)]
        return Obligation(
            name=name, harness="C15/sys_create.c",
            defines=["NS=%d" % ns, "NC=%d" % nc, "VJSON_MAX_NODES=%d" % (16 * ns + 8)] + extra_defs,
            srcs=sys_srcs, incdirs=UTHASH, native_cflags=GC, unwind=12, unwindset=us, timeout=1500,
            desc=dict(
                functions=["create_system", "is_thread_stream", "create_loom", "find_loom", "create_proc", "create_thread", "system_get_lpt",
                           "loom_name", "loom_init_begin", "loom_load_metadata", "load_cpus", "loom_find_cpu", "loom_get_cpu", "loom_add_cpu",
                           "loom_find_proc", "loom_add_proc", "proc_stream_get_pid", "proc_init_begin", "proc_load_metadata", "load_appid",
                           "load_rank", "proc_find_thread", "proc_add_thread", "thread_stream_get_tid", "thread_init_begin",
                           "thread_load_metadata", "cpu_init_begin", "stream_metadata", "stream_data_set", "stream_data_get"],
                units=sys_units,
                symbolic="%d streams, each: ovni.part absent/thread/other, ovni.loom absent/one of 2 names, pid 0-3, tid 0-3, finished 0/1, "
                         "optional app_id 0-2, optional rank -1..3 + nranks 0-4, optional loom_cpus with 0-%d entries (index, phyid in [-1,3]); "
                         "all independent, so every assignment of threads to processes/looms, every distribution of per-process/per-loom "
                         "attributes and every enumeration order is covered" % (ns, nc),
                bound="%d streams, <=2 looms, <=%d CPU entries per stream" % (ns, nc),
                oracle="order-free reference over the union: -1 whenever a contradiction visible at creation exists (missing part/loom/pid/"
                       "tid/finished, duplicate TID, app id <=0 or conflicting, bad or conflicting rank/nranks, phyid with two indices); -1 only "
                       "for such a reason or an out-of-domain input; on 0 the hierarchy is exactly the union (lpt map, one proc per (loom,pid), "
                       "one thread per stream, merged appid/rank/nranks, merged CPU set with indices)",
                out="more streams / looms / CPU entries; a thread carrying nranks without rank; contradictions only visible after creation "
                    "(no app id, no CPUs, index clash or gap, ranks on some processes only) are in sys_order_*",
                assumptions=[VJ_ASSUME, UT_ASSUME, SYS_ASSUME] + (
                    ["known finding D3 excluded by signature (-DKF_D3)"] if KF_D3 else [])), **kw)

    if tier == "quick":
        obs.append(create_ob("sys_create_3streams", 3, 1, kf))
    else:
        obs.append(create_ob("sys_create_3streams_2cpus", 3, 2, kf))
    # ---- (c) ordering / rows / final checks from any hierarchy ------------------------------------------
    def order_ob(name, nl, np_, nt, nc, swap=0, **kw):
        m = max(nl, np_, nt, nc) + 1
        tot = max(nl * np_ * nt, nl * (nc + 1)) + 1
        us = ["strcmp.0:8", "set_sort_criteria.0:%d" % (nl + 1), "loom_init_end.0:%d" % (nc + 1),
              "thread_init_end.0:4", "cpu_init_end.0:6"]
        us += ["build.%d:%d" % (i, m) for i in range(6)]
        us += ["sort_lpt.%d:%d" % (i, nl + 2) for i in range(11)]
        us += ["loom_sort.%d:%d" % (i, max(np_, nc) + 2) for i in range(10)]
        us += ["proc_sort.%d:%d" % (i, nt + 2) for i in range(3)]
        us += ["loom_set_rank_min.%d:%d" % (i, np_ + 1) for i in range(4)]
        us += ["init_global_lists.%d:%d" % (i, m) for i in range(8)]
        us += ["init_global_indices.%d:%d" % (i, tot) for i in range(4)]
        us += ["init_end_system.%d:%d" % (i, m) for i in range(4)]
        for f, b in (("loom_find_proc", np_ + 1), ("proc_find_thread", nt + 1), ("proc_add_thread", nt + 1), ("loom_add_proc", np_ + 1),
                     ("loom_find_cpu", nc + 1), ("loom_add_cpu", nc + 1)):
            us += ["%s.0:%d" % (f, b), "%s.1:%d" % (f, b)]
        return Obligation(
            name=name, harness="C15/sys_order.c",
            defines=["NLOOMS=%d" % nl, "NPROCS=%d" % np_, "NTHREADS=%d" % nt, "NCPUS=%d" % nc, "SWAP=%d" % swap],
            srcs=sys_srcs, incdirs=UTHASH, native_cflags=GC, unwind=12, unwindset=us, timeout=1500,
            desc=dict(
                functions=["set_sort_criteria", "loom_set_rank_min", "sort_lpt", "cmp_loom_rank", "cmp_loom_id", "loom_sort", "by_rank", "by_pid",
                           "by_phyid", "proc_sort", "by_tid", "init_global_lists", "init_global_indices", "init_end_system", "thread_init_end",
                           "proc_init_end", "cpu_init_end", "loom_init_end", "loom_get_cpu", "loom_find_cpu",
                           "(construction) loom_init_begin, cpu_init_begin, loom_add_cpu, proc_init_begin, loom_add_proc, thread_init_begin, proc_add_thread"],
                units=sys_units,
                symbolic="every pid 1-4 (distinct per loom), app id 0-2, rank -1..3, tid 1-4 (distinct per "
                         "process), CPU index 0-3 and phyid 0-3 (distinct per loom); the concrete insertion order models the stream enumeration "
                         "order, the symbolic identifiers make every relation between insertion order and identifier order reachable",
                bound="%d looms x %d processes x %d threads, %d CPUs per loom; loom names in insertion order: %s" % (
                    nl, np_, nt, nc, "n0.x, n1" if swap else "n1, n0.x"),
                oracle="reference over the identifier SET: set_sort_criteria refuses only ranks on some processes of a loom; init_end_system "
                       "refuses iff a process has no app id, a loom has no CPU, an index clash or an index >= #CPUs; on accept every global "
                       "list is strictly increasing in the reference key (looms by min rank or name, processes by rank or pid, threads by "
                       "tid, CPUs by phyid with the vCPU last), complete, gindex == position, counters match",
                out="larger hierarchies; equal ranks in two processes (order unspecified, only the verdict is checked); report_libovni_version, "
                    "clock offsets",
                assumptions=[UT_ASSUME, SYS_ASSUME, "representation invariant of create_system (distinct pids per loom, tids per process, phyids "
                             "per loom; checked by sys_create_*) assumed for the start hierarchy"]), **kw)

    for cfg in ORDER_CFGS[tier]:
        obs.append(order_ob("sys_order_%dx%dx%d_%dcpu" % cfg[:4] + ("_swap" if cfg[4] else ""), *cfg[:4], swap=cfg[4]))

    # ---- glue: the whole system_init() on a single-loom trace -----------------------------------------
    def init_ob(name, ns, nc, extra_defs, **kw):
        n1 = ns + 1
        ncpu = ns * nc + 1
        m = max(n1, ncpu) + 1
        us = ["strcmp.0:8", "create_system.0:%d" % n1, "find_loom.0:3", "create_loom.0:3", "load_cpus.0:%d" % (nc + 1),
              "set_sort_criteria.0:3", "loom_init_end.0:%d" % ncpu, "thread_init_end.0:4", "cpu_init_end.0:6",
              "report_libovni_version.0:%d" % n1, "init_offsets.0:2", "init_offsets.1:%d" % n1,
              "c15_vsnprintf.0:24", "c15_vsnprintf.1:24", "c15_vsnprintf.2:24", "c15_vsnprintf.3:24"]
        us += ["sort_lpt.%d:3" % i for i in range(11)]
        us += ["loom_sort.%d:%d" % (i, max(n1, ncpu) + 1) for i in range(10)]
        us += ["proc_sort.%d:%d" % (i, n1 + 1) for i in range(3)]
        us += ["loom_set_rank_min.%d:%d" % (i, n1) for i in range(4)]
        us += ["init_global_lists.%d:%d" % (i, m) for i in range(8)]
        us += ["init_global_indices.%d:%d" % (i, m) for i in range(4)]
        us += ["init_end_system.%d:%d" % (i, m) for i in range(4)]
        for f, b in (("loom_find_proc", n1), ("proc_find_thread", n1), ("proc_add_thread", n1), ("loom_add_proc", n1),
                     ("loom_find_cpu", ncpu), ("loom_add_cpu", ncpu)):
            us += ["%s.0:%d" % (f, b), "%s.1:%d" % (f, b)]
        return Obligation(
            name=name, harness="C15/sys_init.c", defines=["NS=%d" % ns, "NC=%d" % nc, "VJSON_MAX_NODES=%d" % (24 * ns + 8)] + extra_defs,
            srcs=sys_srcs, incdirs=UTHASH, native_cflags=GC, unwind=12, unwindset=us, timeout=1500,
            desc=dict(
                functions=["system_init", "create_system", "set_sort_criteria", "sort_lpt", "init_global_lists", "init_global_indices",
                           "init_end_system", "report_libovni_version", "load_clock_offsets", "init_offsets", "stream_clkoff_set",
                           "and every function listed under sys_create_* / sys_order_*"],
                units=sys_units,
                symbolic="%d streams of one loom, each: ovni.part absent/thread/other, pid 0-3, tid 0-3, finished 0/1, optional lib.version, "
                         "optional app_id 0-2, optional rank -1..3 + nranks 0-4, optional loom_cpus with 0-%d entries (index, phyid in [-1,3])" % (ns, nc),
                bound="%d streams, 1 loom, <=%d CPU entries per stream" % (ns, nc),
                oracle="order-free reference over the union: system_init == -1 iff a contradiction of the statement (missing part/pid/tid/"
                       "finished, duplicate TID, app id missing/<=0/conflicting, bad or conflicting rank/nranks, no CPU, index<->phyid clash, "
                       "CPU index >= count); on 0: processes by rank or pid, threads by (process, tid), CPUs by phyid with vCPU last, "
                       "gindex == position, counters, lpt map, merged app id / rank",
                out="two looms in one whole-pipeline query (covered per phase by sys_create_* and sys_order_2x*); clock offset table",
                assumptions=[VJ_ASSUME, UT_ASSUME, SYS_ASSUME] + (["known finding D3 excluded by signature (-DKF_D3)"] if KF_D3 else [])), **kw)

    # (2 streams through the whole pipeline: symex alone > 300 s, > 256 objects: not affordable)
    obs.append(init_ob("sys_init_1stream", 1, 2, kf))

    # a thread stream without ovni.loom (concrete absence, see harness): first or second stream
    obs.append(create_ob("sys_create_noloom_first", 2, 1, kf + ["LOOM_ABSENT=1"]))
    obs.append(create_ob("sys_create_noloom_second", 2, 1, kf + ["LOOM_ABSENT=2"]))
    # ---- sort criteria over three looms (position independence of the rank handling)
    obs.append(Obligation(
        name="sort_criteria_3looms", harness="C15/sort_criteria.c", srcs=sys_srcs, incdirs=UTHASH, native_cflags=GC,
        unwind=12, timeout=900,
        desc=dict(functions=["set_sort_criteria", "loom_set_rank_min", "loom_sort", "by_rank", "by_pid", "loom_init_begin", "proc_init_begin", "loom_add_proc"],
                  symbolic="rank (-1 = none .. 3) and pid (1..4, distinct per loom) of the 2 processes of each of 3 looms",
                  bound="3 looms x 2 processes, looms in a fixed insertion (= enumeration) order; equal ranks inside a loom excluded",
                  oracle="refused iff some loom has ranks on only one of its processes, wherever it is enumerated; else sort_by_rank iff all looms have ranks; "
                         "each loom rank-enabled iff it has ranks, rank_min = minimum, processes ordered by rank resp. pid",
                  assumptions=[UT_ASSUME])))
    return obs
