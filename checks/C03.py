"""C03 - the emulator replays all streams as one time-ordered, loss-free sequence.

Assume/guarantee decomposition, every piece a solver query on the real C code:
  H  heap.h: one insert / one pop from the canonical heap of every size inside the bound
  P  player.c + stream.c: base case (player_init) + one inductive player_step from the
     representation invariant, with the heap specification (justified by H) and with the real
     heap (all member sets / arrangements of <=3 streams); plus complete replays of tiny traces
  O  system.c + clkoff.c: the clock offset every stream receives
  T  trace.c: loaded stream list independent of the directory enumeration order
  E  emu.c/recorder.c/pvt.c/prv.c: Paraver time := dclock of the current event
"""
import itertools
import os
import re

from vp.core import Obligation, REPO

LEVEL_TEXT = ("C03: bounded symbolic proof (CBMC) on the real heap.h / player.c / stream.c / trace.c / system.c / clkoff.c / emu.c "
              "code that the replay is the time-ordered, loss-free, stream-order-preserving merge with first-event-relative "
              "times, independent of the directory enumeration order; induction over heap size and over player steps.")

MANIFEST = dict(
    level_text=LEVEL_TEXT,
    level_note=("Induction: H proves one heap operation from the canonical heap of each size n<=9 (quick) / n<=15 (thorough); "
                "P proves player_init establishes and one player_step preserves the representation invariant and delivers the "
                "reference-merge event, for <=3 (4) streams with <=3 (4) loaded-event positions each and all int64 clocks/offsets "
                "below 2^61, once with the heap specification justified by H and once with the real heap in every arrangement; "
                "complete replays of tiny traces cross-check the invariant.  Trusted: cbmc 6.11 + SAT back end, goto-cc, the stubs "
                "named per obligation (uthash list model, nftw/opendir environment, stream_load reduced to relpath, player_step stub in E)."),
    technique=("bounded symbolic execution of the real C units with CBMC (SAT), inductive steps from concrete pointer topologies, "
               "unwinding assertions, native ASan/UBSan replay of counterexamples"),
)

STREAM_SRCS = ["src/emu/stream.c", "src/emu/emu_ev.c", "src/rt/ovni.c", "src/emu/path.c", "src/parson.c"]
GC = ["-ffunction-sections", "-fdata-sections", "-Wl,--gc-sections"]   # native replay: drop unreferenced real functions

PLAYER_FUNCS = ["player_init", "player_step", "step_stream", "update_clocks", "check_clock_gate", "player_ev", "player_stream",
                "player_nprocessed", "stream_cmp", "stream_step", "next_ev_size", "stream_evclock", "stream_lastclock", "stream_ev",
                "stream_clkoff_set", "stream_allow_unsorted", "emu_ev", "ovni_ev_size", "ovni_payload_size", "ovni_ev_get_clock"]
HEAP_FUNCS = ["heap_init", "heap_insert", "heap_pop_max", "heap_max_heapify", "heap_get", "heap_get_move", "leading_zeros"]
REAL_HEAP_UNWIND = ["heap_max_heapify:3", "heap_get.0:3", "heap_insert.0:3"]
P_ASSUME = ["streams are in the state load_obs leaves them in (C19), events are 12-byte headers without payload",
            "clocks and offsets below 2^61 in magnitude (no signed wrap of clock+offset)"]
SPEC_ASSUME = ["SPEC_HEAP: heap.h replaced by a priority-queue specification (pop returns some maximal element for the caller's "
               "comparator, ties chosen by an input); justified by the H obligations for heaps of the proven sizes"]


def depth(n):
    d = 0
    while (1 << (d + 1)) <= max(n, 1):
        d += 1
    return d


def heap_obs(tier):
    obs = []
    nmax = 9 if tier == "quick" else 15
    for op in ("insert", "pop"):
        for n in range(0, nmax + 1):
            if op == "insert" and n == nmax:
                continue  # insert n -> n+1 stays inside the bound
            d = depth(n + 1) + 2
            defs = ["N=%d" % n] + (["OP_POP"] if op == "pop" else [])
            uw = ["heap_get.0:%d" % d] + (["heap_insert.0:%d" % d] if op == "insert" else ["heap_max_heapify:%d" % d])
            obs.append(Obligation(
                name="H_%s_n%02d" % (op, n), harness="C03/heap.c", defines=defs,
                srcs=STREAM_SRCS, unwind=n + 5, unwindset=uw, timeout=900,
                desc=dict(functions=["heap_insert" if op == "insert" else "heap_pop_max", "heap_get", "heap_get_move",
                                     "leading_zeros", "heap_max_heapify", "stream_cmp", "stream_lastclock"],
                          symbolic="corrected clocks (int64, full range, ties allowed) of all %d nodes under heap order" % (n + 1),
                          bound="one %s on the canonical heap of size %d (concrete pointer topology)" % (op, n),
                          out="heaps of more than %d streams" % nmax,
                          oracle="result is the complete tree of the new size (every position occupied, nothing beyond), parent links mirror "
                                 "child links, heap order on clocks, node set = old set +/- one node each exactly once, size counter exact, "
                                 "popped node has minimal clock, no die()",
                          assumptions=["H is an induction step: heaps reachable from heap_init by insert/pop are canonical (base n=0 included)"])))
    return obs


def real_heap_configs(ns):
    """(cur, member mask, order) for every pre-state heap of the inductive step with the real heap."""
    cfgs = []
    for cur in range(-1, ns):
        others = [i for i in range(ns) if i != cur]
        for k in range(0, len(others) + 1):
            for members in itertools.combinations(others, k):
                mask = sum(1 << i for i in members)
                for perm in itertools.permutations(members):
                    order = list(perm) + [i for i in range(ns) if i not in perm]
                    cfgs.append((cur, mask, order))
    return cfgs


def player_obs(tier):
    obs = []
    ns, ne = (3, 3) if tier == "quick" else (4, 4)
    common = dict(out="more than %d streams in one step / payload-carrying events (tiling is C19) / clocks >= 2^61; "
                      "what the models do with the event" % ns)
    # base case
    for spec in (True, False):
        bns = ns if spec else 3
        obs.append(Obligation(
            name="P_base_%s" % ("spec" if spec else "real"), harness="C03/pstep.c",
            defines=["NS=%d" % bns, "NE=%d" % ne, "BASE"] + (["SPEC_HEAP"] if spec else []),
            srcs=STREAM_SRCS, unwind=max(9, ne + 2), unwindset=[] if spec else REAL_HEAP_UNWIND, timeout=900,
            desc=dict(functions=PLAYER_FUNCS + ([] if spec else HEAP_FUNCS),
                      symbolic="stream lengths 0..%d, all raw clocks, clock offsets, MCVs, emulator/dump mode; streams not assumed sorted" % ne,
                      bound="%d streams x <=%d events, player_init" % (bns, ne),
                      oracle="player_init refuses only a negative corrected first clock or first events >1 h apart (emulator mode) and then "
                             "reports an error; otherwise the state is Inv(nothing delivered): every non-empty stream has event 0 loaded and sits in "
                             "the heap, empty streams are inactive, nprocessed = number of loaded events",
                      assumptions=P_ASSUME + (SPEC_ASSUME if spec else []), **common)))
    # inductive step, heap specification
    for cur in range(-1, ns):
        obs.append(Obligation(
            name="P_step_spec_cur%s" % ("N" if cur < 0 else cur), harness="C03/pstep.c",
            defines=["NS=%d" % ns, "NE=%d" % ne, "SPEC_HEAP", "CUR=%d" % cur],
            srcs=STREAM_SRCS, unwind=max(9, ne + 2), timeout=1200,
            desc=dict(functions=PLAYER_FUNCS,
                      symbolic="pre-state: delivered counts idx[i] in 0..len[i], firstclock; stream lengths 0..%d, all raw clocks, offsets, MCVs, "
                               "mode, tie choice of the heap; streams not assumed sorted" % ne,
                      bound="%d streams x <=%d events, one player_step from any state satisfying Inv with stream %s delivered last" % (
                          ns, ne, "none" if cur < 0 else cur),
                      oracle="independent reference merge: delivered event is the next undelivered event of its stream (pointer identity) with the minimal "
                             "corrected time over all stream heads; sclock = clock+offset; dclock = sclock - first sclock; non-decreasing; +1 iff all "
                             "streams exhausted; -1 iff the last stream's next event goes backwards (emulator mode); heap keys stable while inside; "
                             "Inv re-established field by field",
                      assumptions=P_ASSUME + SPEC_ASSUME, **common)))
    # inductive step, real heap, every arrangement of <=3 streams
    for cur, mask, order in real_heap_configs(3):
        obs.append(Obligation(
            name="P_step_real_cur%s_m%d_o%s" % ("N" if cur < 0 else cur, mask, "".join(map(str, order))), harness="C03/pstep.c",
            defines=["NS=3", "NE=3", "CUR=%d" % cur, "MEMB=%d" % mask, "ORDER={%s}" % ",".join(map(str, order))],
            srcs=STREAM_SRCS, unwind=9, unwindset=REAL_HEAP_UNWIND, timeout=1200,
            desc=dict(functions=PLAYER_FUNCS + HEAP_FUNCS,
                      symbolic="as P_step_spec; waiting streams = mask %d inserted in order %s by the real heap_insert" % (mask, order),
                      bound="3 streams x <=3 events, one player_step, real heap holding the streams of mask %d" % mask,
                      oracle="as P_step_spec (without the model's key-stability assertion); the configurations enumerate every member set and every "
                             "canonical ordered arrangement of a heap of <=3 nodes",
                      assumptions=P_ASSUME, **common)))
    # complete replays (cross-check that Inv is not vacuously strong)
    fulls = [("real", 2, 1, 900)]
    if tier != "quick":
        fulls += [("real", 1, 3, 900), ("spec", 2, 2, 1800), ("spec", 3, 1, 1800)]
    for kind, fns, fne, to in fulls:
        obs.append(Obligation(
            name="P_full_%s_%dx%d" % (kind, fns, fne), harness="C03/player.c",
            defines=["NS=%d" % fns, "NE=%d" % fne] + (["SPEC_HEAP"] if kind == "spec" else []),
            srcs=STREAM_SRCS, unwind=max(9, fns * fne + 3), unwindset=REAL_HEAP_UNWIND if kind == "real" else [], timeout=to,
            desc=dict(functions=PLAYER_FUNCS + (HEAP_FUNCS if kind == "real" else []),
                      symbolic="stream lengths 0..%d, all raw clocks, offsets, MCVs, mode" % fne,
                      bound="complete replay (player_init + player_step until +1/-1) of %d streams x <=%d events" % (fns, fne),
                      oracle="same reference merge as P_step, over the whole run: every event of every stream delivered exactly once, in stream order, "
                             "non-decreasing corrected time, dclock relative to the first event, count = sum of lengths",
                      assumptions=P_ASSUME + (SPEC_ASSUME if kind == "spec" else []), **common)))
    return obs


def offset_obs(tier):
    return [Obligation(
        name="O_offsets", harness="C03/offsets.c", srcs=["src/rt/ovni.c", "src/parson.c"],
        incdirs=["stubs/uthash_model"], unwind=8, timeout=900, solver=["--sat-solver", "cadical"], native_cflags=GC,
        desc=dict(functions=["init_offsets", "parse_clkoff_entry", "system_get_lpt", "clkoff_init", "cadd", "cfind", "cindex", "clkoff_count",
                             "clkoff_get", "stream_clkoff_set", "stream_data_set", "stream_data_get"],
                  symbolic="hostnames of 3 looms (1..2 bytes, may coincide), 0..3 table entries: name, median (|m| < 2^52, optional .5 fraction)",
                  bound="3 looms, 5 streams (2+1+1 thread streams, 1 stream without loom), <=3 table entries",
                  out="text parsing of the table (fgets/sscanf), medians that do not fit int64, mean/stdev columns",
                  oracle="entry refused iff its name is already in the table; table refused iff it names a host without loom; otherwise every loom and "
                         "every stream of the loom carries trunc(median) of the entry named like the loom's hostname, 0 without entry; stream without "
                         "loom keeps 0",
                  assumptions=["uthash list model (stubs/uthash_model)", "calloc never fails", "PATH_MAX re-scaled to 16 inside the single TU"]))]


def addr_dependence_scan():
    """Fail-closed token scan: the merge order must not depend on addresses.  Counts pointer-to-integer casts and
    relational comparisons of heap nodes / streams in the units that decide the order."""
    n = 0
    for rel in ("src/emu/player.c", "src/include/heap.h", "src/emu/trace.c"):
        try:
            txt = open(os.path.join(REPO, rel)).read()
        except OSError:
            return 99
        txt = re.sub(r"/\*.*?\*/", " ", txt, flags=re.S)
        txt = re.sub(r"//[^\n]*", " ", txt)
        txt = re.sub(r'"(\\.|[^"\\])*"', '""', txt)
        n += len(re.findall(r"\(\s*(u?intptr_t|unsigned\s+long|size_t|long)\s*\)\s*\(?\s*&?\s*(a|b|sa|sb|node|parent|stream|max|change|largest|current)\b", txt))
        n += len(re.findall(r"\b(a|b|sa|sb|node|parent|stream|largest|change|max)\s*(<=?|>=?)\s*(a|b|sa|sb|node|parent|stream|largest|change|max)\b", txt))
    return n


def trace_obs(tier):
    obs = []
    scan = addr_dependence_scan()
    for nt in range(0, 5):
        obs.append(Obligation(
            name="T_load_n%d" % nt, harness="C03/trace.c", defines=["NT=%d" % nt, "ADDR_DEP=%d" % scan],
            srcs=["src/rt/ovni.c", "src/parson.c"], unwind=20, timeout=900,
            unwindset=["trace_load.0:6", "trace_load.1:6", "trace_load.2:4", "trace_load.3:4", "v_strcmp.0:13"], native_cflags=GC,
            desc=dict(functions=["trace_load", "cb_nftw", "is_stream", "load_stream", "add_stream", "cmp_streams", "DL_APPEND", "DL_SORT",
                                 "path_copy", "path_dirname", "path_filename", "path_remove_trailing"],
                      symbolic="the order in which nftw visits the %d stream directories (any permutation)" % nt,
                      bound="%d stream directories with the concrete names b, a/c, a, ab (prefix + nested cases), non-stream entries interleaved" % nt,
                      out="nftw/opendir themselves, more than 4 streams, arbitrary directory names in the end-to-end load (see T_sort)",
                      oracle="k-th stream of trace.streams is the directory with the k-th smallest relpath (unsigned byte order) for every enumeration "
                             "order; each directory loaded exactly once with its own relpath; list links consistent; "
                             "token scan of player.c/heap.h/trace.c finds no address-dependent comparison (ADDR_DEP=0)",
                      assumptions=["nftw calls the callback once per file; opendir/closedir succeed; calloc never fails",
                                   "stream_load reduced to memset + relpath copy", "PATH_MAX re-scaled to 48 inside the single TU",
                                   "strcmp modelled as unsigned-byte comparison"])))
    for nt in range(1, 4 if tier == "quick" else 5):
        obs.append(Obligation(
            name="T_sort_n%d" % nt, harness="C03/trace.c", defines=["NT=%d" % nt, "SORT_ONLY", "ADDR_DEP=%d" % scan],
            srcs=["src/rt/ovni.c", "src/parson.c"], unwind=8, timeout=900 if nt < 4 else 2400,
            unwindset=["sort_streams.0:%d" % (nt + 1), "sort_streams.1:%d" % (nt + 1), "sort_streams.2:3", "sort_streams.3:4", "v_strcmp.0:5"],
            native_cflags=GC,
            desc=dict(functions=["cmp_streams", "add_stream", "DL_APPEND", "DL_SORT"],
                      symbolic="relpaths of %d streams: 1..3 arbitrary bytes each, pairwise distinct, in arbitrary initial order" % nt,
                      bound="%d streams, relpaths of <=3 bytes" % nt,
                      out="relpaths longer than 3 bytes; equal relpaths (cannot occur: distinct directories)",
                      oracle="after add_stream x n + DL_SORT(streams, cmp_streams) the k-th stream is the one with the k-th smallest relpath; "
                             "cmp_streams has the sign of the unsigned-byte comparison",
                      assumptions=["strcmp modelled as unsigned-byte comparison", "PATH_MAX re-scaled to 48 inside the single TU"])))
    return obs


def emu_obs(tier):
    return [Obligation(
        name="E_paraver_time", harness="C03/emustep.c",
        srcs=["src/emu/recorder.c", "src/emu/pv/pvt.c", "src/emu/pv/prv.c", "src/emu/player.c"],
        incdirs=["stubs/uthash_model"], unwind=4, timeout=600, native_cflags=GC,
        desc=dict(functions=["emu_step", "set_current", "recorder_advance", "pvt_advance", "prv_advance", "player_ev", "player_stream"],
                  symbolic="dclock of the delivered event, return code of player_step, current time of two Paraver traces",
                  bound="one emu_step, two registered traces",
                  out="how prv.c prints the time column (C13); models and bay (C04-C08)",
                  oracle="on an accepted event both traces' time == dclock before model_event runs; -1 if that would move a trace back; +1/-1 of the "
                         "player forwarded without side effect",
                  assumptions=["player_step, system_get_lpt, emu_stat_update, model_event, bay_propagate stubbed (C03-P proves dclock)",
                               "uthash list model: recorder walks pvt->hh.next"]))]


def obligations(tier, sc):
    obs = []
    obs += heap_obs(tier)
    obs += player_obs(tier)
    obs += offset_obs(tier)
    obs += trace_obs(tier)
    obs += emu_obs(tier)
    return obs
