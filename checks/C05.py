from checks import C04 as base

LEVEL_TEXT = ("C05: one inductive step of thread AND affinity events (OH*, OAs, OAr) through the real model_ovni_event "
              "from every state of a 2-thread (2 procs) / 2 physical CPU + vCPU topology; after every accepted event "
              "each CPU's nth_running/nth_active/th_running/th_active/thread list and NRUN/TID/PID/THRUN/THACT channels "
              "equal an independent recount; two Running threads on a physical CPU are refused, on the vCPU accepted.")

MANIFEST = dict(
    level_text=LEVEL_TEXT,
    level_note=base.MANIFEST["level_note"] + (
        " Quick tier runs one binding configuration of each th0<->th1 mirror pair (emitter and binding order are symbolic), "
        "thorough all 16. OAr towards the CPU the target thread already occupies is left open: the statement is silent and "
        "the implementation refuses it (cpu_remove_thread+cpu_add_thread write the same CPU channels twice in one instant "
        "for an active thread; thread_migrate_cpu re-writes the same CPU value for a paused one) while OAs accepts the same "
        "request as a no-op - shown by the informational obligation info_oar_same_cpu_strict and reproduced with the real "
        "ovniemu (harness/C05/e2e_oar_same_cpu.c)."),
    technique=base.MANIFEST["technique"] + "; affinity events included (pre_affinity_set/remote, cpu_migrate_thread, thread_migrate_cpu)",
)


def obligations(tier, sc):
    obs = []
    for cfg in base.configs(tier, reduced=True):
        obs.append(base.step_obligation(1, cfg, "C05/step.c"))   # execute, end, state changes
        obs.append(base.step_obligation(2, cfg, "C05/step.c"))   # local and remote affinity changes
    # Informational (never a violation): under the strict reading "every well-formed OAr of a live
    # thread is accepted" the implementation alarms - OAr to the thread's own CPU is refused.
    ob = base.step_obligation(2, 4 * 1 + 0, "C05/step.c")
    ob.name = "info_oar_same_cpu_strict"
    ob.defines = ob.defines + ["STRICT_OAR_SAME_CPU"]
    ob.info_only = True
    ob.witness = False
    ob.desc = dict(ob.desc)
    ob.desc["oracle"] = ("as stepA_*, but OAr to the CPU the target thread is already on must be accepted like OAs "
                         "(informational; expected to fail, not a C05 violation)")
    obs.append(ob)
    if tier == "thorough":
        # two-event twin: two consecutive affinity events starting with th0 on cpu0, th1 on cpu1
        obs.append(base.step_obligation(2, 4 * 1 + 2, "C05/step.c", timeout=1800, nev=2))
    return obs
