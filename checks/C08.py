"""C08 - subsystem push/pop nesting and per-model event tables.

Also hosts the event-catalogue helpers shared with checks/C18.py: building the real
`ovnievents` from the working tree, parsing its output and generating the C tables
(evdoc.h in the per-run generated include directory) the harnesses use as oracle.
"""
import html
import os
import re
import subprocess
import sys

from vp.core import Obligation, REPO

LEVEL_TEXT = ("C08: (S) one push/pop/set/flush of the real chan.c from an arbitrary channel state at every depth 0..512 (depth case-split); "
              "(T) for each of the 8 models the real event handler on every declared event / documented pair of the list printed by the freshly built "
              "ovnievents, thread state and payload symbolic; (P) wrong model byte / precondition false for all 2^24 byte triples; "
              "(L) the real end_lint/model_*_finish of the 6 models that have one.")

MANIFEST = dict(
    level_text=LEVEL_TEXT,
    level_note="Nesting is proven per operation (inductive step from an arbitrary stack at each depth), not by unrolling histories. "
               "Handlers are run with the constant bytes of every declared event (cbmc 6.11 cannot index the 256x256x3 dispatch tables symbolically); "
               "codes the tools do not list are C18's subject. Agreement between a value's label text and the event description is checked for MPI only "
               "(label == function name); union chan_data is modelled as a struct because cbmc 6.11 loses array contents on updates of a struct nested in a union.",
    technique="CBMC 6.11 bounded symbolic execution of src/emu/chan.c and src/emu/<model>/{event,setup}.c; oracle tables generated "
              "from the output of the real ovnievents built from the working tree")

MODELS = ["ovni", "nosv", "nanos6", "nodes", "mpi", "tampi", "openmp", "kernel"]
MODEL_CHAR = {"ovni": "O", "nosv": "V", "nanos6": "6", "nodes": "D", "mpi": "M", "tampi": "T", "openmp": "P", "kernel": "K"}
LINT_MODELS = ["nosv", "nanos6", "nodes", "mpi", "tampi", "openmp"]

PAIR_VERBS = [("enters ", "leaves "), ("begins ", "ceases "), ("starts ", "stops  ")]

TYPES = {"u8": (1, 0), "u16": (2, 0), "u32": (4, 0), "u64": (8, 0),
         "i8": (1, 1), "i16": (2, 1), "i32": (4, 1), "i64": (8, 1), "str": (0, 0)}


class CatalogueError(Exception):
    pass


def build_ovnievents(sc):
    """Compile the real ovnievents natively from the working tree (same unit list as
    src/emu/CMakeLists.txt's `emu` library) and return its stdout."""
    cml = open(os.path.join(REPO, "src/emu/CMakeLists.txt")).read()
    m = re.search(r"add_library\(emu STATIC(.*?)\)", cml, re.S)
    if not m:
        raise CatalogueError("cannot find the emu library unit list in src/emu/CMakeLists.txt")
    units = [os.path.normpath(os.path.join(REPO, "src/emu", u)) for u in m.group(1).split()]
    units += [os.path.join(REPO, "src/emu/ovnievents.c"), os.path.join(REPO, "src/rt/ovni.c"), os.path.join(REPO, "src/parson.c")]
    exe = os.path.join(sc.dir, "ovnievents")
    cmd = ["gcc", "-std=c11", "-O0", "-w", "-D_POSIX_C_SOURCE=200809L", "-I" + sc.gen,
           "-I" + os.path.join(REPO, "src/include"), "-I" + os.path.join(REPO, "src/emu"),
           "-I" + os.path.join(REPO, "src"), "-I" + os.path.join(REPO, "include")] + units + ["-o", exe, "-lm"]
    p = subprocess.run(cmd, capture_output=True, text=True, timeout=300)
    if p.returncode != 0:
        raise CatalogueError("native build of ovnievents failed:\n" + p.stderr[-3000:])
    p = subprocess.run([exe], capture_output=True, text=True, timeout=60)
    if p.returncode != 0:
        raise CatalogueError("the real ovnievents exits with %d (the tool refuses its own declaration list):\n%s" % (p.returncode, p.stderr[-2000:]))
    return p.stdout


def parse_catalogue(text):
    """ovnievents markdown -> {model name: {"id": char, "events": [(signature, description)]}}"""
    cat = {}
    cur = None
    sig = None
    for line in text.splitlines():
        m = re.match(r"## Model (\S+)", line)
        if m:
            cur = cat.setdefault(m.group(1), {"id": None, "events": []})
            continue
        m = re.match(r"List of events for the model \*(\S+)\* with identifier \*\*`(.)`\*\*", line)
        if m and cur is not None:
            cur["id"] = m.group(2)
            continue
        m = re.match(r'<dt><a id="[^"]*" href="[^"]*"><pre>(.*)</pre></a></dt>$', line)
        if m and cur is not None:
            sig = html.unescape(m.group(1))
            continue
        m = re.match(r"<dd>(.*)</dd>$", line)
        if m and cur is not None and sig is not None:
            cur["events"].append((sig, html.unescape(m.group(1))))
            sig = None
    return cat


def parse_doc_catalogue():
    """The committed documentation copy doc/user/emulation/events.md."""
    return parse_catalogue(open(os.path.join(REPO, "doc/user/emulation/events.md")).read())


def parse_signature(sig):
    """Independent reference parser of an event signature.
    Returns dict(mcv, jumbo, args=[(name, type, offset, size, signed)], psize)."""
    m = re.match(r"^(...)(\+?)(?:\((.*)\))?$", sig, re.S)
    if not m:
        raise CatalogueError("unparsable signature %r" % sig)
    mcv, plus, args = m.group(1), m.group(2), m.group(3)
    jumbo = plus == "+"
    off = 4 if jumbo else 0      # a jumbo payload starts with its 32-bit size
    out = []
    if args is not None:
        for a in args.split(","):
            parts = a.split()
            if len(parts) != 2 or parts[0] not in TYPES:
                raise CatalogueError("unparsable argument %r in %r" % (a, sig))
            size, sg = TYPES[parts[0]]
            out.append((parts[1], parts[0], off, size, sg))
            off += size
    return dict(mcv=mcv, jumbo=jumbo, args=out, psize=off if (args is not None) else 0)


def parse_description(desc, args):
    """Independent reference reading of a description: literal text with %% and
    %<printf format>{argument name} regions.  Returns (template, refs): the template has one
    byte 0x01 in place of every argument region; refs = [(arg index or -1, printf format)]."""
    tmpl = ""
    refs = []
    i = 0
    names = [a[0] for a in args]
    while i < len(desc):
        ch = desc[i]
        if ch != "%":
            tmpl += ch
            i += 1
            continue
        if desc[i + 1:i + 2] == "%":
            tmpl += "%"
            i += 2
            continue
        m = re.match(r"%([^{%]*)\{([A-Za-z0-9]+)\}", desc[i:])
        if not m:
            raise CatalogueError("malformed format region in description %r" % desc)
        refs.append((names.index(m.group(2)) if m.group(2) in names else -1, m.group(1)))
        tmpl += "\x01"
        i += len(m.group(0))
    return tmpl, refs


def find_pairs(events):
    """Documented pairs: consecutive declarations whose descriptions are 'enters X'/'leaves X',
    'begins X'/'ceases X' or 'starts X'/'stops  X' with identical X (what PAIR_E/B/S print)."""
    pairs = []
    for i in range(len(events) - 1):
        (s1, d1), (s2, d2) = events[i], events[i + 1]
        for a, b in PAIR_VERBS:
            if d1.startswith(a) and d2.startswith(b) and d1[len(a):] == d2[len(b):]:
                pairs.append((s1[:3], s2[:3], d1[len(a):]))
    return pairs


def cstr(s):
    return '"' + "".join(c if (32 <= ord(c) < 127 and c not in '"\\?') else "\\%03o" % ord(c) for c in s) + '"'


def cchar(c):
    return "'\\%03o'" % ord(c)


def gen_evdoc(sc, cat):
    """Write evdoc.h (selected by -DM_<model>) into the generated include dir."""
    out = ["/* generated by checks/C08.py from the output of the real ovnievents - do not edit */",
           "#ifndef EVDOC_H", "#define EVDOC_H",
           "struct doc_arg { const char *name; int offset, size, is_signed, is_str; };",
           "struct doc_ref { int arg; const char *fmt; };",
           "struct doc_ev { char mcv[4]; const char *sig; const char *desc; int jumbo; int psize; int nargs; struct doc_arg args[4];",
           "                const char *tmpl; int nrefs; struct doc_ref refs[4]; };"]
    for name in MODELS:
        if name not in cat:
            raise CatalogueError("model %s is not listed by ovnievents" % name)
        evs = cat[name]["events"]
        out.append("#ifdef M_%s" % name)
        out.append("#define DOC_MODEL_ID %s" % cchar(cat[name]["id"]))
        out.append("#define DOC_NEV %d" % len(evs))
        # one small constant object per event + switch-based lookups: symex pays for the size of a
        # constant literal on every access, a single 100-entry table costs 0.1 s per field read
        index_cases = []
        seen = set()
        for i, (sig, desc) in enumerate(evs):
            ps = parse_signature(sig)
            if len(ps["args"]) > 4:
                raise CatalogueError("more than 4 arguments in %r: enlarge struct doc_ev" % sig)
            args = ", ".join("{ %s, %d, %d, %d, %d }" % (cstr(n), off, size, sg, 1 if t == "str" else 0)
                             for n, t, off, size, sg in ps["args"])
            tmpl, refs = parse_description(desc, ps["args"])
            if len(refs) > 4:
                raise CatalogueError("more than 4 argument regions in %r: enlarge struct doc_ev" % desc)
            rtxt = ", ".join("{ %d, %s }" % (a, cstr(f)) for a, f in refs)
            out.append("static const struct doc_ev doc_ev_%s_%d = { %s, %s, %s, %d, %d, %d, { %s }, %s, %d, { %s } };" % (
                name, i, cstr(ps["mcv"]), cstr(sig), cstr(desc), 1 if ps["jumbo"] else 0,
                ps["psize"], len(ps["args"]), args or "{ 0, 0, 0, 0, 0 }", cstr(tmpl), len(refs), rtxt or "{ 0, 0 }"))
            if ps["mcv"][0] == cat[name]["id"] and ps["mcv"] not in seen:
                seen.add(ps["mcv"])
                index_cases.append("\tcase %d: return %d; /* %s */" % (ord(ps["mcv"][1]) * 256 + ord(ps["mcv"][2]), i + 1, ps["mcv"].replace("*/", "* /")))
        out.append("static const struct doc_ev *doc_get(int i) {")
        out.append("\tswitch (i) {")
        for i in range(len(evs)):
            out.append("\tcase %d: return &doc_ev_%s_%d;" % (i, name, i))
        out.append("\tdefault: return 0;\n\t}\n}")
        out.append("/* index + 1 of the declaration of code (c, v) of this model, 0 when the tools do not list it */")
        out.append("static int doc_index(unsigned char c, unsigned char v) {")
        out.append("\tswitch (c * 256 + v) {")
        out += index_cases
        out.append("\tdefault: return 0;\n\t}\n}")
        pairs = find_pairs(evs)
        out.append("#define DOC_NPAIRS %d" % len(pairs))
        # small lists scanned linearly by the harness (a 256x256 table indexed by symbolic bytes is
        # either bit-flattened or, under --arrays-uf-always, left unconstrained by cbmc 6.11)
        out.append("static const struct doc_pair { unsigned char c1, v1, c2, v2; int i1, i2; /* indices into doc_ev */ } doc_pairs[DOC_NPAIRS + 1] = {")
        idx = {}
        for i, (sig, desc) in enumerate(evs):
            idx.setdefault(sig[:3], i)
        for e1, e2, what in pairs:
            out.append("\t{ %s, %s, %s, %s, %d, %d }, /* %s */" % (cchar(e1[1]), cchar(e1[2]), cchar(e2[1]), cchar(e2[2]), idx[e1], idx[e2], what.replace("*/", "* /")))
        out.append("\t{ 0, 0, 0, 0, 0, 0 } };")
        out.append("/* +k: enter event of documented pair k, -k: its leave event, 0: neither */")
        out.append("static int doc_role(unsigned char c, unsigned char v) {")
        out.append("\tswitch (c * 256 + v) {")
        for k, (e1, e2, what) in enumerate(pairs):
            out.append("\tcase %d: return %d;" % (ord(e1[1]) * 256 + ord(e1[2]), k + 1))
            out.append("\tcase %d: return %d;" % (ord(e2[1]) * 256 + ord(e2[2]), -(k + 1)))
        out.append("\tdefault: return 0;\n\t}\n}")
        out.append("static const char *const doc_pair_text[DOC_NPAIRS + 1] = {")
        for e1, e2, what in pairs:
            out.append("\t%s," % cstr(what))
        out.append("\t0 };")
        out.append("#endif")
    out.append("#endif")
    path = os.path.join(sc.gen, "evdoc.h")
    open(path, "w").write("\n".join(out) + "\n")
    return path


_CACHE = {}


def catalogue(sc):
    """Tool catalogue of this run (built once per process)."""
    if "cat" not in _CACHE:
        try:
            cat = parse_catalogue(build_ovnievents(sc))
            gen_evdoc(sc, cat)
        except CatalogueError as ex:
            print("INCONCLUSIVE: cannot obtain the event catalogue from the working tree: %s" % ex, flush=True)
            sc.cleanup()
            sys.exit(2)
        _CACHE["cat"] = cat
    return _CACHE["cat"]


# `bin/check Cxx --replay FILE` goes straight to core.replay_file without calling obligations(); the
# harnesses need the generated evdoc.h, so generate it first (core.py is not edited: its module-level
# name is looked up at call time).
from vp import core as _core
if not getattr(_core.replay_file, "_c08_wrapped", False):
    _orig_replay_file = _core.replay_file

    def _replay_file(sc, path):
        catalogue(sc)
        return _orig_replay_file(sc, path)
    _replay_file._c08_wrapped = True
    _core.replay_file = _replay_file

NATIVE_GC = ["-ffunction-sections", "-fdata-sections", "-Wl,--gc-sections", "-Wl,--unresolved-symbols=ignore-all", "-no-pie"]

CHAN_ASSUME = ["union chan_data is modelled as a struct (members side by side): CBMC 6.11 loses array contents on updates of a struct "
               "nested in a union (spurious counterexamples); chan.c never type-puns through it",
               "value_buffers/value_nextbuf (value.c) defined in the harness; text of error messages is not evaluated (V_PRINTF_NULL)"]

ENV_ASSUME = ["leaf actions (chan_push/pop/set, task_*, body_*, thread_set_*, cpu_*, loom_get_cpu, proc/loom_find_thread, model_thread/cpu_create/connect, "
              "recorder/pvt/pcf lookups, breakdown, mux_set_default) replaced by recorders that always succeed (harness/C08/model_env.h)",
              "documented pairs = consecutive declarations printed by the freshly built ovnievents as enters/leaves, begins/ceases, starts/stops + identical text",
              CHAN_ASSUME[0]]


def obligations(tier, sc):
    obs = []
    # ---- C08-S: depth case-split in ranges; every depth 0..512 is covered in both tiers
    lo = 0
    while lo <= 512:
        hi = min(lo + 63, 512)
        if hi == 511:
            hi = 512
        obs.append(Obligation(
            name="S_chan_depth_%03d_%03d" % (lo, hi), harness="C08/chan_stack.c",
            defines=["V_PRINTF_NULL", "DEPTH_LO=%d" % lo, "DEPTH_HI=%d" % hi] + (["FRAME_STEP=16"] if tier == "thorough" else []),
            unwind=514, timeout=1500, solver=["--sat-solver", "cadical"], extra=["--object-bits", "12"],
            desc=dict(functions=["chan_init", "chan_prop_set", "chan_set_dirty_cb", "chan_push", "chan_pop", "chan_set", "chan_flush", "chan_read", "set_dirty", "get_value", "value_is_equal"],
                      symbolic="operation (push/pop/set/flush), channel type, depth in [%d,%d] (case-split so that array indices are constants), all 512 stacked values, last_value, dirty flag, the 3 properties, argument value, dirty-callback presence and result" % (lo, hi),
                      bound="one operation from an arbitrary channel state (inductive step) on the real 512-entry array; depths %d..%d in this query, 0..512 over the family" % (lo, hi),
                      out="histories are covered by induction over single operations, not unrolled; frame condition (outer regions untouched) checked at 4 positions per depth (bottom, middle, the two below the top) in the quick tier, at every 16th position plus the two below the top in the thorough tier",
                      oracle="independent reference from doc/dev/channels.md: accepted iff (see harness header), depth +-1, top value, entries below untouched, read = innermost value or null, dirty callback once iff the channel was clean",
                      assumptions=CHAN_ASSUME)))
        lo = hi + 1

    cat = catalogue(sc)
    for m in MODELS:
        npairs = len(find_pairs(cat[m]["events"]))
        # ---- C08-T: table obligations
        obs.append(Obligation(
            name="T_table_%s" % m, harness="C08/table.c", defines=["M_%s" % m],
            incdirs=["stubs/uthash_model"], unwind=260, timeout=1500, native_cflags=NATIVE_GC,
            solver=["--sat-solver", "cadical"], extra=["--max-field-sensitivity-array-size", "128"],
            desc=dict(functions=["model_%s_event" % m, "process_ev", "simple/pre_task/update_task/... (src/emu/%s/event.c)" % m, "tables of src/emu/%s/setup.c (chan_stack, pcf_labels)" % m],
                      symbolic="thread flags is_running/is_active/is_out_of_cpu and state, payload size 0..32 and bytes, jumbo flag, task context (nested/outer/parallel); model byte + category + value byte symbolic (2^24 triples) on the paths the handler decides before its table lookup (wrong model byte; precondition false, flags case-split)",
                      bound="every declared event (%d) and every documented pair (%d) with the constant bytes of the tool's list, one handler call each from the same symbolic thread state" % (len(cat[m]["events"]), npairs),
                      out="codes the tools do not list (C18); agreement between label text and description beyond MPI (label == function name); leaf actions are recorders; CBMC 6.11 cannot index the 256x256x3 dispatch tables symbolically, hence constant bytes",
                      oracle="generated from the real ovnievents output: documented (enter,leave) => exactly one PUSH s / one POP s on the same stack channel (or SET s / SET null on a single channel, or both ignored); two declared events never push the same (channel,value); every pushed/set value has a pcf label; push only on channels declared stack; no action and -1 unless the model precondition holds and the model byte matches; kernel KCO/KCI toggle out-of-CPU",
                      assumptions=ENV_ASSUME)))
    for m in MODELS:
        obs.append(Obligation(
            name="P_pre_%s" % m, harness="C08/table.c", defines=["M_%s" % m, "PART_PRE"],
            incdirs=["stubs/uthash_model"], unwind=260, timeout=900, native_cflags=NATIVE_GC,
            desc=dict(functions=["model_%s_event" % m, "process_ev (src/emu/%s/event.c)" % m],
                      symbolic="model byte, category and value byte (all 2^24 triples), thread flags and state, payload, jumbo flag",
                      bound="one handler call; wrong model byte (255 values, case-split) and every flag combination that violates the model precondition (case-split), each with symbolic category/value",
                      out="the handler is expected to decide these cases before its table lookup; if it does not the query exhausts memory and is reported inconclusive",
                      oracle="event of another model, or thread not in the state the model requires (%s): return -1, no channel/task/thread action, out-of-CPU flag unchanged" % {"ovni": "not out of CPU", "nosv": "active and not out of CPU", "nanos6": "active", "kernel": "none"}.get(m, "running"),
                      assumptions=ENV_ASSUME)))
    for m in LINT_MODELS:
        obs.append(Obligation(
            name="L_lint_%s" % m, harness="C08/lint.c", defines=["M_%s" % m],
            incdirs=["stubs/uthash_model"], unwind=40, timeout=600, native_cflags=NATIVE_GC,
            desc=dict(functions=["model_%s_finish" % m, "end_lint (src/emu/%s/setup.c)" % m],
                      symbolic="linter_mode, emu.finished, depth 0..512 of every channel of two threads, channel types",
                      bound="two threads in the system list; all channel depths",
                      out="traces interrupted before the end (emu.finished == 0) are not constrained; more than two threads",
                      oracle="finished trace: finish fails iff linter mode and some thread's subsystem/function stack is non-empty; other channels never matter",
                      assumptions=ENV_ASSUME)))
    # ---- C08-B: the task-body region of the task-based models.  `VTx/6Tx` opens and `VTe/6Te` closes
    # the "Task body" subsystem region whatever the nesting context (parent running, paused, or none).  The
    # obligations are the nOS-V / Nanos6 model-layer obligations of C07 (real <model>/event.c over real
    # task.c + body.c; oracle: ST_TASK_BODY pushed exactly on execute, popped exactly on end, untouched by
    # pause/resume) re-run under this property: a seeded change that fed the EXPANDED transition ('X'/'E')
    # to update_task_ss_channel was invisible to the table obligations above (task_* are recorders there).
    from checks import C07 as _c07
    for model in ("nosv", "nanos6"):
        for ob in _c07.model_obligations(model, tier):
            if ob.info_only:
                continue
            ob.name = "B_task_body_region_" + ob.name
            obs.append(ob)
    return obs
