import os, re
from vp.core import Obligation, REPO

FUNCS = ["ovni_ev_emit", "ovni_ev_jumbo_emit", "ovni_ev_add", "ovni_ev_add_jumbo", "add_flush_events", "ovni_flush",
         "flush_evbuf", "write_evbuf", "write_stream_header", "ovni_payload_size", "ovni_ev_size", "ovni_clock_now",
         "clock_monotonic_now", "ovni_mark_push", "ovni_mark_pop", "ovni_mark_set", "ovni_payload_add"]
OPS = {0: "emit", 1: "jumbo", 2: "flush", 3: "mark", 4: "header"}

def step_obligations(prop, tier, ops):
    obs = []
    for op in ops:
        obs.append(Obligation(
            name="step_%s" % OPS[op], harness="C01/rt_step.c",
            defines=["OP=%d" % op, "PROP=%d" % prop] + (["RT_CAP=64"] if op == 4 else []) + (["MAXSHORT=0"] if op in (1, 3) else []),
            srcs=["src/parson.c"],
            unwind=30, unwindset=["ovni_ev_add:3", "add_flush_events:3", "write_evbuf.0:5"],
            extra=["--object-bits", "10"],
            timeout=600 if tier == "quick" else 1800, mem_gb=16,
            desc=dict(functions=FUNCS,
                      symbolic="buffer fill level evlen in [0, 2 MiB), bytes already on disk, last stream clock, current time; the whole user event "
                               "(flags nibble/any payload size, MCV, clock, payload bytes; jumbo size 0..2^32-1; mark type/value/kind); split point of every "
                               "short write; clock increments",
                      bound="one API call (inductive step from any state satisfying Inv: evlen < OVNI_MAX_EV_BUF, last clock <= now) at the REAL 2 MiB capacity; "
                            "<=6 write() calls and <=8 clock reads inside the call (unwinding assertions); recursion depth <=3; at most 2 short writes per flush (emit, flush ops; the jumbo and mark ops run with complete writes)",
                      out="the bytes moved by libc memcpy/write themselves (ghosts with the contracts 'copies n bytes' / 'appends the first r<=n bytes'); write() errors (C10)",
                      oracle="append-only at evbuf+evlen; flush writes evbuf[0..evlen) in order and completely; appended = [user event bytes exactly][OF[ OF] pairs]; "
                             "logical stream length grows by exactly that; (C02) markers paired/non-nested, clocks non-decreasing and <= now",
                      assumptions=["memcpy(d,s,n) copies n bytes; write(fd,b,n) appends the first r in [1,n] bytes of b (short writes allowed)",
                                   "clock_gettime: tv_sec = 0, tv_nsec non-decreasing (only the order of clock values matters)",
                                   "user events do not use the reserved MCVs OF[ and OF]",
                                   "conformant caller: event clock >= previous event clock and <= current time"])))
    return obs
