"""C17 - mark API end-to-end: marks set at runtime appear as the documented timelines.

Obligation families (composition is an argument, like C06's B+M+W):

  A  runtime    harness/C17/rt_meta.c   ovni_mark_type / ovni_mark_label write exactly the documented
                                         metadata keys or abort (ghost key-value store for parson)
                harness/C01/rt_step.c   (reused, OP=3) ovni_mark_push/pop/set abort on value 0, otherwise
                                         append exactly one 24-byte event OM[ / OM] / OM= = value (i64 LE) + type (i32 LE)
  B  emulator   harness/C17/emu_scan.c  scan_thread/parse_mark/parse_labels/add_label/create_mark_type merge the
                                         definitions of two threads: accepted iff well-formed and conflict-free, table = union,
                                         prvtype = 100 + type
                harness/C17/emu_event.c mark_event: which events reach which channel (recorders, ANY type) and what
                                         the REAL chan.c accepts / shows afterwards (types 3 single / 5 stack)
  C  wiring     harness/C17/wiring.c    mark_create + mark_connect on real chan/mux/track: thread view = mux on the
                                         thread's STATE channel with thread_select_active, CPU view = mux on th_running with
                                         one input per thread, PRV rows 100+type with PRV_SKIPDUPNULL, PCF types/values
  The timeline behaviour of those muxes (value shown iff the thread is active / is the CPU's running thread, else
  nothing) is C06's obligation family M (M_thread_act_*, M_cpu_*), which starts from exactly the muxes C proves.
"""
import os
import subprocess

from vp.core import Obligation, VERIF
from checks.rt_step_common import step_obligations

LEVEL_TEXT = ("C17: bounded symbolic proof on the real code that (A) ovni_mark_type/ovni_mark_label abort exactly on the documented misuse "
              "(type outside [0,100), empty/NULL title or label, redefinition, label for an undefined type, value <= 0, relabel) and otherwise "
              "store exactly ovni.mark.<t>.title / .chan_type (\"stack\" iff OVNI_MARK_STACK) / .labels.<v> for every int32 type, long flags and "
              "int64 value, and push/pop/set emit exactly one OM[ / OM] / OM= event (value i64, type i32) or abort on 0; (B) the emulator's "
              "mark table built from two threads' metadata is accepted iff every definition is well-formed and no two disagree on title, "
              "channel type or a label, is then the union with prvtype = 100 + type, and mark_event accepts an event iff size 12, type defined, "
              "value != 0, OM[/OM]/OM= legal for the channel type on the real chan.c (pop must match the top); (C) mark_create/mark_connect wire "
              "every mark channel to an ACTIVE-thread mux per thread and a RUNNING-thread mux per CPU, PRV type 100 + type with PRV_SKIPDUPNULL "
              "and one PCF value per merged label - the muxes whose timeline behaviour C06 proves.")

MANIFEST = dict(
    level_text=LEVEL_TEXT,
    level_note=("Bounds: one API call / one event (inductive steps); emulator merge over 2 threads x <=2 type slots x <=2 labels from menus "
                "(keys 0 7 99 | 100 -1 x 7x empty; titles A/B; chan_type single/stack/Stack/non-string/absent; label keys 1 2 | x, texts A/B), "
                "presence of every member symbolic for one type per thread and pinned patterns for two types per thread (all-symbolic in the thorough tier); "
                "mark_event on real channels with stack depth 0..3 (0..6 thorough) and types 3 (single) / 5 (stack), on recorder channels with ANY int32 type; "
                "wiring for one concrete system (2 threads, 2 CPUs, 2 types, 4 labels) plus a conflicting and an empty one. "
                "Composition A+B+C with C06-M (mux behaviour) and C04/C05 (STATE / th_running channels) is an argument, not a single query. "
                "Outside the claim: parson itself (ghost store / ghost documents), type keys accepted only through strtol leniency (\"07\", \" 7\", \"+7\"), "
                "label values <= 0 or non-canonical in metadata (the runtime never writes them; the emulator accepts them), titles/labels of 512+ characters, "
                "int64 label values truncated to int by pcf_add_value, stack overflow at MAX_CHAN_STACK=512 (C08-S), PCF text rendering (C13), "
                "the doc sentence 'when a thread is not running' (the code and the property statement track the ACTIVE thread in the thread view)."),
    technique="CBMC 6.11 bounded symbolic execution of src/rt/ovni.c and src/emu/ovni/mark.c (+ chan.c, mux.c, track.c, extend.c, cpu.c, thread.c); "
              "parson setters = structural ghost key-value store with an independent reference key formatter, parson getters = ghost documents (stubs/vjson.h); "
              "printf %d as guess-and-verify digits; uthash list model; recorder bay / prv / pcf; harness-level case split of digit counts, emitting thread, "
              "mark type and stack depth; native ASan/UBSan replay of counterexamples",
)

UT = ["stubs/uthash_model"]
NATIVE = ["-Wl,--unresolved-symbols=ignore-all", "-no-pie"]
OBJ = ["--object-bits", "12"]
LIBC_ASSUME = "snprintf / strtol / strtoll are reference models (stubs/libc_model.h, validated natively against glibc by bin/selftest)"
STRTOL_ASSUME = ("strtol/strtoll inside mark.c: harness/C17/c17_strtol.h, the division-free variant of libc_model's v_strtoll10; compared natively with "
                 "glibc and v_strtoll10 on edge cases + 200000 random strings on every run (harness/C17/selfcheck_strtol.c)")
VJ_ASSUME = "parson getters replaced by the ghost document model stubs/vjson.h (differentially tested against real parson by bin/selftest)"
UT_ASSUME = "uthash list model (stubs/uthash_model): a map with insertion-ordered iteration"
EMU_COMMON = ("harness/C17/c17_emu_common.h: union chan_data compiled as a struct (CBMC 6.11 mishandles structs inside unions; chan.c never type-puns), "
              "memset(p,0,sizeof *p) = assignment of a zero object, value_is_equal's 16-byte memcmp = two 64-bit word compares, value_str() = constant string")


def selfcheck_strtol(sc):
    """Native differential test of harness/C17/c17_strtol.h against glibc and libc_model.h."""
    exe = os.path.join(sc.dir, "c17_selfcheck_strtol")
    cmd = ["gcc", "-std=gnu11", "-O1", "-w", "-I" + os.path.join(VERIF, "include"), "-I" + os.path.join(VERIF, "stubs"),
           "-I" + os.path.join(VERIF, "harness"), os.path.join(VERIF, "harness/C17/selfcheck_strtol.c"), "-o", exe]
    r = subprocess.run(cmd, capture_output=True, text=True)
    if r.returncode != 0:
        raise RuntimeError("C17: cannot build selfcheck_strtol: %s" % r.stderr[-800:])
    r = subprocess.run([exe], capture_output=True, text=True, timeout=120)
    if r.returncode != 0:
        raise RuntimeError("C17: harness/C17/c17_strtol.h disagrees with glibc / libc_model.h: %s" % (r.stdout + r.stderr)[-800:])


def obligations(tier, sc):
    obs = []
    thorough = tier != "quick"
    selfcheck_strtol(sc)

    # ------------------------------------------------------------------ A: runtime, metadata
    obs.append(Obligation(
        name="A_rt_type_label", harness="C17/rt_meta.c", defines=[], native_srcs=["src/parson.c"],
        unwind=50, extra=OBJ, timeout=900 if not thorough else 1800,
        desc=dict(functions=["ovni_mark_type", "ovni_mark_label", "get_thread_metadata"],
                  symbolic="which call (type / label); type: any int32; flags: any long; value: any int64; title / label: NULL, empty or up to 3 arbitrary "
                           "characters; thread initialised or not, finished or not; pre-state of the thread's metadata: the type already defined or not, the "
                           "(type, value) label already present or not",
                  bound="ONE call from any metadata state the API can have produced (inductive step; unbounded call sequences by induction on that state); "
                        "40 cases = digits of type (1-2) x digits of value (1-19), all inside one query",
                  out="parson's own dotted-path implementation (ghost: exact key match against the four keys the layout allows, 'ovni.mark.<t>' exists iff "
                      "something below it does); json_object_dotset_string failing (allocation failure, outside all claims); titles/labels longer than 3 "
                      "characters (the code only tests the first one and passes the pointer on)",
                  oracle="die() iff thread not ready/finished, type not in [0,100), string NULL/empty, [type] already defined, [label] value <= 0, type undefined, "
                         "(type, value) already labelled - both directions (die stub asserts 'allowed here', normal return asserts 'not required'); else exactly "
                         "the stores ovni.mark.<type>.title = the title pointer and .chan_type = \"stack\" iff flags & OVNI_MARK_STACK else \"single\" "
                         "[type], ovni.mark.<type>.labels.<value> = the label pointer [label]; every key looked up or stored equals a key built by the "
                         "harness' own formatter from (type, value)",
                  assumptions=["printf contract: %d / %ld print the canonical decimal digits of the argument (digits are inputs constrained by "
                               "'their value is the argument'; the ghost asserts the argument is the call's type / value first)",
                               "json_value_get_object(rthread.meta) returns the thread's metadata object; json_object_dotget_value / json_object_dotset_string "
                               "follow parson's dotted-path semantics on string leaves (harness/C17/kv_ghost.h)"])))

    # ------------------------------------------------------------------ A: runtime, events (reused C01/C02 step harness, OP=3)
    for ob in step_obligations(1, tier, [3]):
        ob.name = "A_rt_push_pop_set"
        d = dict(ob.desc)
        d["functions"] = ["ovni_mark_push", "ovni_mark_pop", "ovni_mark_set", "ovni_payload_add", "ovni_ev_set_mcv", "ovni_ev_add", "ovni_clock_now"]
        d["oracle"] = ("C17 part: value == 0 => die() (and only then); otherwise exactly one 24-byte event is appended whose bytes are flags 0x0b, 'O' 'M' "
                       "'[' / ']' / '=' (push / pop / set), the clock read at the call, value as int64 little endian, type as int32 little endian; "
                       "plus C01's append-only / nothing-lost assertions of the step harness")
        d["symbolic"] = "mark kind (push/pop/set), type: any int32, value: any int64, buffer fill level, bytes on disk, clocks (see C01 step harness)"
        d["out"] = "flush triggered by a mark event (buffer has room here; every fill level is covered for ovni_ev_add by C01/C02 step_emit); " + d.get("out", "")
        ob.desc = d
        obs.append(ob)

    # ------------------------------------------------------------------ B: emulator, merge of definitions
    vj_unwind = ["vj_keyeq.0:25", "vj_seglen.0:25", "vj_lookup.0:11", "vj_nth.0:11", "vj_count.0:11",
                 "json_object_dotget_value.0:5", "vj_path_obj.0:5"]
    b_loops = ["find_label.0:3", "find_label.1:3", "add_label.0:3", "add_label.1:3", "find_mark_type.0:4", "find_mark_type.1:4",
               "create_mark_type.0:4", "create_mark_type.1:4", "parse_labels.0:3", "scan_thread.0:3", "v_uthash_keyeq.0:9"]
    scan_cfgs = [
        ("pair_symbolic", ["NSLOT=1", "NLAB=2", "W_CONFLICTS", "W_UNION", "W_NOMARKS", "W_SECOND"],
         "one type slot per thread, two label slots each; PRESENCE of ovni.mark, of every slot, of `labels` and of every label symbolic"),
        ("two_types_all_present", ["NSLOT=2", "NLAB=2", "PIN_SLOTS", "PIN_LABS", "P_MARK=3", "P_SLOT=15", "P_LABELS=15", "P_LAB=255", "W_CONFLICTS", "W_THREE"],
         "two type slots per thread, two labels each, all present (concrete document topology)"),
        ("two_types_mixed", ["NSLOT=2", "NLAB=1", "PIN_SLOTS", "PIN_LABS", "P_MARK=3", "P_SLOT=7", "P_LABELS=6", "P_LAB=20", "W_CONFLICTS", "W_THREE", "W_UNION"],
         "thread 0 defines two types (the second with one label), thread 1 one type with one label (concrete topology)"),
        ("second_thread_only", ["NSLOT=2", "NLAB=2", "PIN_SLOTS", "PIN_LABS", "P_MARK=2", "P_SLOT=15", "P_LABELS=15", "P_LAB=255", "W_SECOND"],
         "thread 0 has no ovni.mark at all, thread 1 defines two types with two labels each (concrete topology)"),
    ]
    if thorough:
        scan_cfgs.append(("two_types_symbolic", ["NSLOT=2", "NLAB=1", "W_CONFLICTS", "W_UNION", "W_NOMARKS", "W_SECOND", "W_THREE"],
                          "two type slots per thread, one label slot each, ALL presence flags symbolic"))
    for cname, defs, what in scan_cfgs:
        obs.append(Obligation(
            name="B_scan_%s" % cname, harness="C17/emu_scan.c", defines=defs, incdirs=UT, native_cflags=NATIVE,
            unwind=12, unwindset=vj_unwind + b_loops, extra=OBJ, timeout=900 if not thorough else 2400,
            desc=dict(functions=["scan_thread", "parse_mark", "create_mark_type", "find_mark_type", "parse_labels", "parse_number", "add_label", "find_label"],
                      symbolic="document shape: " + what + ". Per type slot: key in {\"0\" \"7\" \"99\" | \"100\" \"-1\" \"x\" \"7x\" \"\"} (distinct inside one object), "
                               "the mark an object or a number, title absent / number / \"A\" / \"B\", chan_type absent / number / \"single\" / \"stack\" / \"Stack\", "
                               "labels a string or an object; per label: key \"1\" \"2\" | \"x\" (distinct), value a number / \"A\" / \"B\"",
                      bound="2 threads, <= 2 types per thread, <= 2 labels per type; the scan loop of mark_create is replayed by the harness (zeroed table, "
                            "scan_thread per thread in order, stop at the first failure); list lengths proven by unwinding assertions (<= 3 types, <= 2 labels per type)",
                      out="type keys that strtol accepts leniently (\"07\", \" 7\", \"+7\": the emulator treats them as 7; no demand); label values <= 0 in metadata "
                          "(accepted by the emulator, never written by the runtime); `ovni.mark` that is not an object (treated as absent); title/label texts of "
                          "512+ characters; more than two threads (the table is order-independent: conflicts are symmetric)",
                      oracle="accepted <=> every present definition is well-formed (decimal key in [0,100), object, string title, chan_type single|stack, labels an object "
                             "of decimal -> string) AND every two definitions of the same type have the same title, the same channel type and no value labelled "
                             "differently; when accepted: find_mark_type(T) != NULL iff some thread defines T, with that title, ctype (CHAN_STACK iff \"stack\"), "
                             "prvtype == 100 + T, distinct indices < ntypes, ntypes == number of distinct types; find_label(T, v) != NULL iff some thread labels v, "
                             "with that text; nothing else in the table",
                      assumptions=[STRTOL_ASSUME, LIBC_ASSUME, VJ_ASSUME, UT_ASSUME,
                                   "calloc never fails and returns zeroed objects (CBMC's model; allocation failure is outside all claims)",
                                   "CBMC pointer/bounds instrumentation is off inside stubs/vjson.h and the harness' reference code, on in mark.c and the libc model"])))

    # ------------------------------------------------------------------ B: emulator, event handler
    obs.append(Obligation(
        name="B_mark_event_dispatch", harness="C17/emu_event.c", defines=["CHAN_RECORDER"], incdirs=UT, native_cflags=NATIVE,
        unwind=20, extra=OBJ, timeout=900,
        desc=dict(functions=["mark_event", "find_mark_type", "create_mark_type", "create_thread_chan"],
                  symbolic="emitting thread (2), payload size: any size_t (0 comes with a NULL payload pointer as emu_ev() produces), value: any int64, mark type: ANY "
                           "int32, trailing payload bytes, event value byte 0..255, result of the channel operation (ok / refused)",
                  bound="one event; table with type 3 (single, index 0) and type 5 (stack, index 1) built by the real create_mark_type / create_thread_chan",
                  out="the channel's own decision (chan_push/pop/set are recorders here; B_mark_event_chan runs the real chan.c)",
                  oracle="a channel operation happens (exactly once) iff size == 12, type in {3,5}, value != 0 and v in {'[',']','='}; it is push / pop / set "
                         "respectively, on the EMITTING thread's channel of that type (which has the type's channel type), with value_int64(value); "
                         "mark_event returns 0 iff that operation is accepted, -1 otherwise; value and type are decoded by the harness from the payload BYTES "
                         "(i64 LE at 0, i32 LE at 8)",
                  assumptions=[UT_ASSUME, "bay_register / track_init are success recorders; channel names and titles are not formatted in this harness"])))
    depth = 6 if thorough else 3
    obs.append(Obligation(
        name="B_mark_event_chan", harness="C17/emu_event.c", defines=["MAXDEPTH=%d" % depth], incdirs=UT, native_cflags=NATIVE,
        unwind=20, extra=OBJ, timeout=900 if not thorough else 2400,
        desc=dict(functions=["mark_event", "find_mark_type", "chan_push", "chan_pop", "chan_set", "chan_read", "set_dirty", "create_mark_type",
                             "create_thread_chan", "chan_init", "chan_prop_set"],
                  symbolic="emitting thread (2) x mark type 3 / 5 x stack depth 0..%d (case split, concrete pointers and indices); payload size: any, value: any int64, "
                           "event value byte 0..255; every stacked value: any int64; single channel: null or any int64; the other thread's channels: depth 0/1, any value" % depth,
                  bound="ONE event from an arbitrary clean channel state (inductive; base case = state after chan_init asserted); stack depth <= %d of 512" % depth,
                  out="mark types other than 3/5 (B_mark_event_dispatch); depth > %d and the full stack (C08-S proves chan.c for all depths); dirty channels "
                      "(one mark write per event, the bay flushes after every event: C06-B)" % depth,
                  oracle="accepted <=> size == 12, value != 0 and: '[' on the stack type; ']' on the stack type with depth > 0 and top == value; '=' on the single type; "
                         "afterwards chan_read shows the pushed value / the enclosing value or null / the set value, the channel is dirty, outer stack entries, the "
                         "thread's other channel and the other thread's channels are untouched; same value twice is fine (CHAN_ALLOW_DUP set by create_thread_chan)",
                  assumptions=[UT_ASSUME, EMU_COMMON, "bay_register / track_init are success recorders; channel names and titles are not formatted in this harness; "
                               "the payload pointer is never NULL here (NULL + size 0 is covered by B_mark_event_dispatch)"])))

    # ------------------------------------------------------------------ C: wiring
    for variant, vname, what in [(0, "merged", "thread 0: type 3 'A' single {1:'one'}; thread 1: type 5 'B' stack {2:'two', 7:'seven'} and type 3 'A' single {4:'four'}"),
                                 (1, "conflict", "as merged but thread 1 titles type 3 'B': mark_create must return -1"),
                                 (2, "nomarks", "no thread defines a mark: ntypes == 0, nothing created / registered")]:
        obs.append(Obligation(
            name="C_wiring_%s" % vname, harness="C17/wiring.c", defines=["VARIANT=%d" % variant], incdirs=UT, native_cflags=NATIVE,
            unwind=40, extra=OBJ, timeout=900,
            desc=dict(functions=["mark_create", "scan_thread", "create_thread_chan", "init_cpu", "mark_connect", "connect_thread", "connect_thread_prv",
                                 "connect_cpu", "connect_cpu_prv", "init_pcf", "create_type", "track_init", "track_connect_thread", "track_th_input_chan",
                                 "track_set_select", "track_set_input", "track_get_output", "mux_init", "mux_set_input", "chan_init", "chan_prop_set",
                                 "cpu_get_th_chan", "extend_get"],
                      symbolic="none (the wiring of a fixed system is deterministic): " + what,
                      bound="system with 2 threads, 2 CPUs, 2 mark types, 4 labels",
                      out="other thread/CPU/type counts (same loops); the behaviour of the muxes (C06-M), of the bay (C06-B), of prv.c/pcf.c (C13); "
                          "int64 label values are narrowed to int by pcf_add_value (noted, not in the statement)",
                      oracle="per thread and type: channel of the type's channel type with CHAN_ALLOW_DUP, registered; track mode TRACK_TH_ACT; mux select = that thread's "
                             "STATE channel, select function thread_select_active, single input = the mark channel, default null, cb_select enabled / cb_input disabled; "
                             "exactly one PRV row (thread trace, gindex, 100+type) fed by the mux output with flags == PRV_SKIPDUPNULL; per CPU and type: track mode "
                             "TRACK_TH_RUN, select = that CPU's th_running channel, selection by index, input[gindex t] = thread t's mark channel, exactly one PRV row "
                             "(cpu trace, gindex, 100+type), PRV_SKIPDUPNULL; thread AND cpu PCF: type 100+type with the title and exactly one value per merged label; "
                             "no other row, callback, PCF type or value",
                      assumptions=[LIBC_ASSUME, VJ_ASSUME, UT_ASSUME, EMU_COMMON,
                                   "recorder bay and recorder prv_register / pcf_add_type / pcf_add_value / recorder_find_pvt (harness/C17/wiring.c)",
                                   "allocation never fails; objects come from typed zeroed pools"])))
    # informational: int64 label values are narrowed to int on their way into the PCF (real pcf.c)
    obs.append(Obligation(
        name="C_info_label_int64", harness="C17/wiring.c", defines=["VARIANT=3"], incdirs=UT, native_cflags=NATIVE,
        unwind=40, extra=OBJ, timeout=900, info_only=True,
        desc=dict(functions=["mark_create", "mark_connect", "init_pcf", "create_type", "pcf_add_type", "pcf_add_value", "pcf_find_value"],
                  symbolic="none: thread 0 defines type 3 'A' single with labels {1: 'one', 4294967297: 'big'} (what ovni_mark_label(3, 1, ..) and "
                           "ovni_mark_label(3, 4294967297, ..) store)",
                  bound="one concrete system; REAL src/emu/pv/pcf.c",
                  out="informational query: its outcome never changes the exit status (DESIGN.md C17 lists the int narrowing as outside the statement)",
                  oracle="mark_connect succeeds for labels on two distinct positive int64 values; the tree FAILS this: create_type() passes (int) l->value to "
                         "pcf_add_value(), 4294967297 becomes 1 and collides with the label of 1 ('PCF value 1 already in type 103'), so ovniemu refuses the trace; "
                         "a lone label on a value >= 2^31 is filed under the truncated number",
                  assumptions=[LIBC_ASSUME, VJ_ASSUME, UT_ASSUME, EMU_COMMON, "recorder bay / prv_register; typed zeroed allocation pools"])))
    return obs
