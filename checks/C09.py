from checks.fs_common import fs_obligations, move_unit_obligations

LEVEL_TEXT = ("C09: for EVERY system call of the runtime's directory/stream/metadata/relocation code at which the process can be killed, "
              "a finished stream visible in the trace directory holds all flushed bytes (direct and OVNI_TMPDIR modes).")

def obligations(tier, sc):
    return fs_obligations(1, tier, sc) + move_unit_obligations(1, tier, sc)
