from checks.fs_common import fs_obligations, move_unit_obligations

LEVEL_TEXT = ("C09: for EVERY system call of the runtime's directory/stream/metadata/relocation code at which the process can be killed, "
              "a finished stream visible in the trace directory holds all flushed bytes (direct and OVNI_TMPDIR modes).")

def obligations(tier, sc):
    obs = fs_obligations(1, tier, sc) + move_unit_obligations(1, tier, sc)
    # second sentence of the statement ("a stream is marked finished only after all its flushed bytes are in their
    # final place, also when ... relocated"): the relocation of one file reports success only if the destination is
    # complete, for every single I/O fault inside it - otherwise the second pass publishes the finished metadata next
    # to a truncated stream.  These are C10's unit obligations on move_thread_to_final, re-run under this property (a
    # seeded change ignored the result of fclose on the copy: a write error in the last partial block was lost).
    for ob in move_unit_obligations(2, tier, sc):
        ob.name = "finished_only_after_bytes_in_place_" + ob.name
        obs.append(ob)
    return obs
