import os, re, subprocess
from vp.core import Obligation, REPO
from checks.rt_step_common import step_obligations

LEVEL_TEXT = ("C01: byte-exact stream fidelity of the real emit/flush path for ALL contents, sizes, fill levels and "
              "short-write splits within the stated call/capacity bounds.")

def check_cap_usage():
    """Parametricity guard for re-scaling OVNI_MAX_EV_BUF: the constant must only appear as the malloc size
    and as the right operand of `>=` comparisons; otherwise the re-scaled proof would not transfer."""
    src = open(os.path.join(REPO, "src/rt/ovni.c")).read()
    src = re.sub(r"/\*.*?\*/", "", src, flags=re.S)
    uses = [l.strip() for l in src.splitlines() if "OVNI_MAX_EV_BUF" in l]
    ok = all(re.search(r"malloc\(OVNI_MAX_EV_BUF\)", l) or re.search(r">=\s*OVNI_MAX_EV_BUF\b", l) for l in uses)
    return ok, uses

def obligations(tier, sc):
    # C01 is stated per thread: the one-step obligations below reason about ONE thread's buffer and file.  That
    # transfers to concurrent threads only if the runtime keeps no state with static storage duration besides the
    # process descriptor and the _Thread_local thread descriptor (C11's structural guard; fails closed, exit 2).
    from checks import C11 as _c11
    sh = _c11.shared_statics()
    if sh:
        raise RuntimeError("objects with static storage duration in the runtime are shared by all threads; the per-thread "
                           "argument of C01 does not cover concurrent threads any more: %r" % sh)
    ok, uses = check_cap_usage()
    if not ok:
        raise RuntimeError("OVNI_MAX_EV_BUF is used in a way the re-scaling argument does not cover: %r" % uses)
    obs = step_obligations(1, tier, [0, 1, 2, 3, 4])
    # isolation of concurrent threads (what lets the per-thread obligations above speak about every thread of a
    # process): C11's thread-modular obligations for the calls that touch the stream, re-run under this property.
    # They include the planted check that no function-scope object with static storage duration is used.
    for ob in _c11.obligations(tier, sc):
        if ob.name in ("tm_ev_emit", "tm_flush", "tm_thread_free", "tm_thread_free_tmpdir"):
            ob.name = "isolation_" + ob.name
            obs.append(ob)
    if os.environ.get("C01_NO_F1", "1") == "1":
        return obs
    caps = [64] if tier == "quick" else [64, 96]
    if os.environ.get("C01_CAP"): caps = [int(os.environ["C01_CAP"])]
    for cap in caps:
        k = int(os.environ.get("C01_K", "3"))
        obs.append(Obligation(
            name="f1_bytes_cap%d_k%d" % (cap, k), harness="C01/f1_bytes.c",
            defines=["RT_CAP=%d" % cap, "K=%d" % k],
            srcs=["src/parson.c"],
            unwind=cap + 20, unwindset=["ovni_ev_add:4", "add_flush_events:4"],
            timeout=int(os.environ.get("C01_TO", "1500")), mem_gb=16,
            desc=dict(functions=["ovni_ev_emit", "ovni_ev_jumbo_emit", "ovni_ev_add", "ovni_ev_add_jumbo", "add_flush_events",
                                 "ovni_flush", "flush_evbuf", "write_evbuf", "write_stream_header", "ovni_payload_add",
                                 "ovni_payload_size", "ovni_ev_size", "ovni_ev_set_mcv", "ovni_ev_set_clock",
                                 "ovni_mark_push", "ovni_mark_pop", "ovni_mark_set"],
                      symbolic="sequence of %d API calls each in {emit with 0-3 payload chunks of any size 0..16, jumbo emit with any size 0..%d, "
                               "flush, mark push/pop/set}; all MCV bytes, clocks, payload and jumbo bytes; split point of every short write; clock increments" % (k, cap),
                      bound="OVNI_MAX_EV_BUF re-scaled to %d bytes, %d calls + final flush, <=12 write() calls" % (cap, k),
                      out="capacity 2 MiB itself (covered by the one-step obligations f2_*), sequences longer than %d calls, write() failing (C10)" % k,
                      oracle="independent decoder over the ghost disk: 8-byte header; events tile exactly; non-marker events equal the emit log byte for byte in order, each once; misuse aborts",
                      assumptions=["write() returns 1..n (short writes allowed), never fails here",
                                   "clock_gettime returns a non-decreasing value",
                                   "OVNI_MAX_EV_BUF occurs only as malloc size and in `>=` comparisons (checked on every run): %s" % uses])))
    return obs
