from vp.core import Obligation

LEVEL_TEXT = ("C04: one inductive step of the thread state machine through the real model_ovni_event, from every "
              "state of a 2-thread / 2 physical CPU + vCPU topology built by the real constructors; iff oracle "
              "against an independent reference machine; full post-state (state, flags, STATE/TID/CPU channels) "
              "and representation invariant re-established; model_ovni_finish iff.")

MANIFEST = dict(
    level_text=LEVEL_TEXT,
    level_note=("Inductive (one-step) argument: the pre-state is every state the real thread_set_cpu/thread_set_state/"
                "cpu_add_thread/cpu_remove_thread/thread_unset_cpu operations produce for the enumerated binding "
                "configuration with symbolic thread states; the checked post-state implies the invariant again, so "
                "histories of any length over <=2 threads are covered. Ghost bay: channels are flushed after every "
                "instant instead of being registered in bay.c (callbacks, muxes and PRV output are C06/C13). "
                "Dead->execute is left open as in the statement. A Dead thread's previous life is fixed to the vCPU (a "
                "previous life on a physical CPU leaves exactly the state the symbolic 'recounted before' flag produces). "
                "Thorough tier adds a two-event twin that starts the second step from what the first real event produced. "
                "Trusted: cbmc 6.11 + SAT back end, goto-cc, the snprintf (null) and 16-byte memcmp models, the uthash "
                "list model."),
    technique=("bounded symbolic execution (CBMC) of model_ovni_event/pre_thread_*/thread.c/cpu.c/loom.c/proc.c/chan.c "
               "from a concrete pointer topology with symbolic scalar state; one obligation per binding configuration"),
)

NAMES = ["none", "cpu0", "cpu1", "vcpu"]

REAL_FUNCS = ["model_ovni_event", "pre_thread", "pre_thread_execute", "pre_thread_end", "pre_thread_pause",
              "pre_thread_resume", "pre_thread_cool", "pre_thread_warm", "thread_set_state", "thread_set_cpu",
              "thread_unset_cpu", "cpu_add_thread", "cpu_remove_thread", "cpu_update", "find_thread",
              "loom_get_cpu", "chan_set", "set_dirty", "chan_flush", "chan_read",
              "loom_init_begin", "loom_add_cpu", "loom_add_proc", "loom_init_end", "cpu_init_begin", "cpu_init_end",
              "proc_init_begin", "proc_add_thread", "proc_init_end", "thread_init_begin", "thread_init_end", "chan_init"]

COMMON = dict(
    srcs=["src/emu/ovni/setup.c", "src/emu/value.c", "src/emu/extend.c", "src/parson.c"],
    incdirs=["stubs/uthash_model"],
    unwind=17,
    extra=["--object-bits", "10"],
)

ASSUMPTIONS = [
    "ghost bay: after every emulated instant each dirty channel is flushed with the real chan_flush (what bay_propagate "
    "does to the channels); bay.c callbacks, muxes and PRV emission are not part of this obligation",
    "uthash list model (stubs/uthash_model): map with insertion-ordered iteration",
    "snprintf model of stubs/libc_model.h with V_PRINTF_NULL: object and channel names are empty strings (names are never "
    "compared in these units; the ghost bay does not look channels up by name)",
    "memcmp(a, b, 16) (its only use: value_is_equal) is modelled as word-wise equality returning 0/1",
    "calloc in loom_init_end succeeds (allocation failure is outside every statement)",
    "pre-states are those with no physical CPU holding two Running threads (the invariant the step re-establishes); "
    "a thread has a CPU iff it is Running/Paused/Cooling/Warming",
    "stream format: payload size is 0 or 2..16 bytes",
]


def configs(tier, reduced=False):
    """Binding configurations CFG = 4*B0 + B1.  reduced: one of each th0<->th1 mirror pair
    (the emitting thread and the binding order on a shared CPU are symbolic, so the mirror
    image differs only in the constants tid/pid/gindex)."""
    if reduced and tier == "quick":
        return [c for c in range(16) if c // 4 <= c % 4]
    return list(range(16))


CAT_NAME = {1: "H", 2: "A"}


def step_obligation(cats, cfg, harness, timeout=900, nev=1):
    b0, b1 = cfg // 4, cfg % 4
    cat = "category 'H' (thread events)" if cats == 1 else "category 'A' (affinity events)"
    return Obligation(
        name="%s%s_th0-%s_th1-%s" % ("step" if nev == 1 else "twostep", CAT_NAME[cats], NAMES[b0], NAMES[b1]), harness=harness,
        defines=["CFG=%d" % cfg, "CATS=%d" % cats] + (["NEV=2"] if nev == 2 else []), timeout=timeout,
        desc=dict(functions=REAL_FUNCS + (["pre_affinity", "pre_affinity_set", "pre_affinity_remote", "cpu_migrate_thread",
                                           "thread_migrate_cpu", "proc_find_thread", "loom_find_thread"] if cats == 2 else []),
                  symbolic=("thread states of th0/th1 (all states compatible with the binding: bound -> Running/Paused/"
                            "Cooling/Warming, unbound -> Unknown/Dead after a previous life), binding order on a shared "
                            "CPU, 'recounted before' flag of each empty CPU; the event: emitting thread, model byte over all 256 "
                            "values, %s, value byte over all 256 values, payload size 0,2..16, 16 payload bytes (CPU index and "
                            "remote tid over all int32), is_out_of_cpu flag" % cat),
                  bound="2 threads in 2 procs, 2 physical CPUs + vCPU, binding th0=%s th1=%s; %s" % (
                      NAMES[b0], NAMES[b1],
                      "ONE event from an arbitrary invariant-satisfying state (inductive step)" if nev == 1 else
                      "TWO consecutive events (the second starts from the state the first real event produced)"),
                  out=">2 threads on one CPU list; several looms; events of other categories (burst, flush, mark, OCn, OU); "
                      "bay callbacks/mux/PRV output",
                  oracle="independent reference machine written from doc/user/emulation/ovni.md and the statement: accepted iff "
                         "legal transition and no physical CPU ends with 2 Running (left open: Dead->execute, OHC, OAr to the thread's "
                         "own CPU, OAr emitted by a not-started/dead thread); on acceptance state, is_running, is_active, cpu, STATE/TID/CPU channels per thread and "
                         "nth_running/nth_active/th_running/th_active/list/NRUN/TID/PID/THRUN/THACT channels per CPU equal the "
                         "reference; invariant re-established",
                  assumptions=ASSUMPTIONS),
        **COMMON)


def finish_obligation(cfg, harness):
    b0, b1 = cfg // 4, cfg % 4
    return Obligation(
        name="finish_th0-%s_th1-%s" % (NAMES[b0], NAMES[b1]), harness=harness,
        defines=["CFG=%d" % cfg, "FINISH"], timeout=600,
        desc=dict(functions=["model_ovni_finish"] + REAL_FUNCS[8:],
                  symbolic="thread states of th0/th1 compatible with the binding, emu->finished over all 256 byte values",
                  bound="2 threads; binding th0=%s th1=%s" % (NAMES[b0], NAMES[b1]),
                  out="more than 2 threads (same list loop)",
                  oracle="model_ovni_finish fails iff finished != 0 and some thread is not Dead",
                  assumptions=ASSUMPTIONS),
        **COMMON)


def obligations(tier, sc):
    obs = [step_obligation(1, cfg, "C04/step.c") for cfg in configs(tier)]
    for cfg in (0, 1, 4 * 3, 4 * 1 + 2):   # none/none, none/cpu0, vcpu/none, cpu0/cpu1
        obs.append(finish_obligation(cfg, "C04/step.c"))
    if tier == "thorough":
        # two-event twin from the initial state (both threads not started): execute, then anything
        obs.append(step_obligation(1, 0, "C04/step.c", timeout=1500, nev=2))
    return obs
